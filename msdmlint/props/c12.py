"""C12 — tables.  IFC-3 exception coverage, resolution order in the selector resolver, no-op shortcut by full index
equality, keys/len/validation structure, probability rows."""
from __future__ import annotations

import ast
import copy
from typing import Dict, List, Optional

from ..callgraph import CallGraph
from ..cfg import cfg_of
from ..model import FunctionInfo, ClassInfo, AnalysisError
from ..report import Ctx
from ..pat import Snips
from ..util import norm, fn_body_nodes, walk_local, kwarg
from .c11 import raise_set, exc_ancestors

EXPLANATION = (
    "Structural necessary conditions of C12: in the selector resolver the lookup of the selector as an element of the outermost "
    "domain precedes every other interpretation; a selection is treated as a no-op only when the resulting index EQUALS the "
    "table's index (fields and ordered domains), not merely has its shape; keys / len read the outermost field's domain; a "
    "probability-table selection becomes a distribution exactly at probability rank; list selectors rebuild the outer domain "
    "from the selector's own index list in order; MDP tables convert every key-not-in-domain error (KeyError, IndexError and "
    "its subclasses, DomainError) into the state/action index error and Table.get covers the same set; validation compares "
    "coordinate counts with unique counts. Full selector semantics under colliding runtime keys are not decided.")
RULES = ("ORD-1 outermost-domain lookup first; NOOP-1 no-op shortcut compares indices with ==, and TableIndex.__eq__ compares ordered fields; "
         "KEY-1 keys/len/items; ROW-1 probability rows; LIST-1 list selectors; IFC-3 raise-set vs handlers (StateTable.__getitem__, "
         "AbstractTable.get); VAL-1 validation; POL-1 action_dist")


class _Relabel(ast.NodeTransformer):
    def __init__(self, m):
        self.m = m

    def visit_Name(self, node):
        return ast.copy_location(ast.Name(id=self.m.get(node.id, node.id), ctx=node.ctx), node)


def _by_role(node: ast.AST, roles: Dict[str, str]) -> str:
    """text of `node` with the locals that were bound to a role shown as <role> (messages do not depend on the spelling of locals)."""
    inv = {v: "<" + k.replace("_", " ") + ">" for k, v in roles.items()}
    return norm(_Relabel(inv).visit(copy.deepcopy(node)))


def _getitem_roles(gi: FunctionInfo):
    """roles of the locals of a table's __getitem__, bound by what they are:
         array_index      the name that receives self.table_index._array_index(<selector parameter>)
         new_table_index  the name that receives self.table_index._updated_index(...)
         new_data         the name that receives self._data[...]
       returns (Snips, roles, statement of new_table_index, derived from array_index?, statement of new_data, selected with array_index and returned?)."""
    S = Snips(gi)
    sel = gi.positional_params[1]
    top = gi.node.body

    def top_find(p, env=None):
        return [(n, e) for n, e in S.find(p, env) if any(n is b for b in top)]
    roles: Dict[str, str] = {}
    r = top_find(f"array_index = self.table_index._array_index({sel})")
    if len(r) == 1:
        roles["array_index"] = r[0][1]["array_index"]
    ui_stmt, ui_ok, nd_stmt, nd_ok = None, False, None, False
    if "array_index" in roles:
        r = top_find("new_table_index = self.table_index._updated_index(array_index)", roles)
        if r:
            ui_stmt, ui_ok = r[0][0], True
            roles["new_table_index"] = r[0][1]["new_table_index"]
        r = top_find("new_data = self._data[array_index]", roles)
        r = [(n, e) for n, e in r if S.has("return new_data", e)]
        if r:
            nd_stmt, nd_ok = r[0][0], True
            roles["new_data"] = r[0][1]["new_data"]
    # fall-backs: the roles stay bound (for the dependent rules) although the derivation itself is reported
    if "new_table_index" not in roles:
        r = top_find("new_table_index = self.table_index._updated_index(REST)") or S.find("self.__class__(data=ANY, table_index=new_table_index)")
        if r:
            ui_stmt = r[0][0] if isinstance(r[0][0], ast.stmt) else None
            roles["new_table_index"] = r[0][1]["new_table_index"]
    if "new_data" not in roles:
        r = top_find("new_data = self._data[ANY]") or S.find("self.__class__(data=new_data, table_index=ANY)")
        if r:
            nd_stmt = r[0][0] if isinstance(r[0][0], ast.stmt) else None
            roles["new_data"] = r[0][1]["new_data"]
    return S, roles, ui_stmt, ui_ok, nd_stmt, nd_ok


def run(ctx: Ctx):
    P = ctx.P
    G = CallGraph(P, ctx.X)
    TI = P.cls("TableIndex")
    ai = TI.methods["_array_index"]
    first = ai.node.body[0]
    SA = Snips(ai)
    sel_p = ai.positional_params[1]
    ok = False
    if isinstance(first, ast.Try):
        # the position found by the lookup is a local of the try body: bound as the target of the lookup, returned as a 1-tuple after it
        # the position is returned as a 1-tuple, through a local of the try body or directly
        ok = SA.solve([f"idx = self.fields[0].domain.index({sel_p})", "return (idx,)"], within=first) is not None \
            and all(any(x is y for b in first.body for y in ast.walk(b)) for x in [n for n, _ in SA.find(f"self.fields[0].domain.index({sel_p})")][:1])
    ctx.check(ok, "ORD-1", ai, first, "an element of the outermost domain is resolved before any other interpretation of the selector", "",
              "the outermost-domain lookup is not the first step of selector resolution: a key that is itself a tuple/list element of the domain can be "
              "interpreted as a multi-field selector")
    if isinstance(first, ast.Try):
        hs = [getattr(t, "id", "?") for h in first.handlers for t in (h.type.elts if isinstance(h.type, ast.Tuple) else [h.type])]
        ctx.check({"KeyError", "TypeError"} <= set(hs), "ORD-1", ai, first, "a failed domain lookup (missing or unhashable key) falls through to the other interpretations", str(hs),
                  f"the domain lookup only tolerates {hs}: an unhashable selector (a list of keys) would raise instead of being interpreted")
    # no-op shortcut
    getitem_roles = {}
    for cname in ("table.table.Table", "ProbabilityTable"):
        gi = P.cls(cname).methods["__getitem__"]
        S, roles, ui_stmt, ui_ok, nd_stmt, nd_ok = _getitem_roles(gi)
        getitem_roles[cname] = (S, roles)
        ifs = [n for n in gi.node.body if isinstance(n, ast.If) and any(isinstance(b, ast.Return) and ast.unparse(b.value) == gi.self_name for b in n.body)]
        if not ifs:
            ctx.unknown("NOOP-1", gi, gi.node, f"{P.cls(cname).name}: no-op selection shortcut", "not present")
            continue
        t = ifs[0].test
        ok = "new_table_index" in roles and S.m("new_table_index == self.table_index", t, roles) is not None
        shown = _by_role(t, roles)
        ctx.check(ok, "NOOP-1", gi, ifs[0], f"{P.cls(cname).name}: selection is a no-op only if the new index equals the table's index", "<new table index> == self.table_index",
                  f"the shortcut returns the table itself when `{shown}`: a selection that permutes or restricts keys but keeps the shape is returned unpermuted")
        ctx.check(nd_ok, "NOOP-1", gi, nd_stmt if nd_stmt is not None else gi.node, f"{P.cls(cname).name}: data selected with the resolved array index", "", "data is not selected with the array index resolved from the selector")
        ctx.check(ui_ok, "NOOP-1", gi, ui_stmt if ui_stmt is not None else gi.node, f"{P.cls(cname).name}: new index derived from the same array index", "", "index and data are derived from different selections")
    eq = TI.methods["__eq__"]
    ok = Snips(eq).m(f"return self._fields == {eq.positional_params[1]}._fields", eq.node.body[-1]) is not None
    ctx.check(ok, "NOOP-1", eq, eq.node, "TableIndex equality compares the ordered fields (names and domains)", "", "index equality does not compare ordered fields")
    # keys / len
    T = P.cls("table.table.Table")
    ctx.check("self.table_index.fields[0].domain" in ast.unparse(T.methods["keys"].node), "KEY-1", T.methods["keys"], T.methods["keys"].node, "keys iterate the outermost domain in order", "", "keys do not iterate the outermost domain")
    ctx.check("len(self.table_index.fields[0].domain)" in ast.unparse(T.methods["__len__"].node), "KEY-1", T.methods["__len__"], T.methods["__len__"].node, "len is the size of the outermost domain", "", "len is not the outermost domain's size")
    AT = P.cls("AbstractTable")
    ctx.check(Snips(AT.methods["items"]).has("((k, self[k]) for k in self.keys())") or Snips(AT.methods["items"]).solve(["for k in self.keys():\n    yield (k, self[k])"]) is not None, "KEY-1", AT.methods["items"], AT.methods["items"].node, "items pair every outer key with its own entry", "", "items pairing changed")
    # probability rows: the roles are those of ProbabilityTable.__getitem__ bound above
    PT = P.cls("ProbabilityTable").methods["__getitem__"]
    SP, proles = getitem_roles["ProbabilityTable"]
    ok = False
    from ..util import lexical_guards
    for n in ast.walk(PT.node):     # the distribution is returned exactly under  ndim <= -probs_start_index  (either branch order)
        if isinstance(n, ast.Return) and SP.m("return TableDistribution(data=new_data, table_index=new_table_index)", n, proles) is not None:
            for t, lab in lexical_guards(PT, n):
                if lab.startswith("T") and SP.m("new_data.ndim <= -self.probs_start_index", t, proles) is not None:
                    ok = True
                if lab.startswith("F") and SP.m("new_data.ndim > -self.probs_start_index", t, proles) is not None:
                    ok = True
    ctx.check(ok, "ROW-1", PT, PT.node, "a selection of probability rank becomes a distribution over the remaining domain", "", "probability rows are not turned into distributions at probability rank")
    ad = P.method("TabularPolicy", "action_dist")
    last = ad.node.body[-1]
    ok = isinstance(last, ast.Return) and isinstance(last.value, ast.Subscript) and ast.unparse(last.value.value) == ad.self_name \
        and ast.unparse(last.value.slice).strip("(),") == ad.positional_params[1]
    ctx.check(ok, "POL-1", ad, ad.node, "action_dist(s) is the policy table's row of s", "", "action_dist is not the row selection")
    # list selectors
    ui = TI.methods["_updated_index"]
    SU = Snips(ui)
    aip = ui.positional_params[1]
    ok = SU.has(f"[Field(name=self.fields[0].name, domain=domaintuple([self.fields[0].domain[i] for i in {aip}])), *self.fields[1:]]")
    ctx.check(ok, "LIST-1", ui, ui.node, "a list of outer keys restricts the outer field to those keys in the given order", "", "list selection does not rebuild the outer domain from the selector's index list")
    # roles: the loop variable over the fields, its position, the selector of that position, the rebuilt domain that is appended
    sol = SU.solve(["for fi, field in enumerate(self.fields):\n    REST", f"field_index = {aip}[fi]", "new_domain = domaintuple([field.domain[i] for i in field_index])",
                    "new_fields.append(Field(field.name, new_domain))"])
    ok = sol is not None and all(any(n is x for x in ast.walk(sol[1][0])) for n in sol[1][1:])
    ctx.check(ok, "LIST-1", ui, ui.node, "inner list selectors restrict their field in the given order", "", "inner list selection changed")
    # (written after seed C12-c) inside the list-selector branch nothing returns the unchanged index: a list always states an order
    sel_p = ui.positional_params[1]
    for br in [n for n in ast.walk(ui.node) if isinstance(n, ast.If) and Snips(ui).m(f"isinstance({sel_p}, list)", n.test) is not None]:
        bad = [r_ for b_ in br.body for r_ in ast.walk(b_) if isinstance(r_, ast.Return) and isinstance(r_.value, ast.Name) and r_.value.id == ui.self_name]
        ctx.check(not bad, "LIST-1", ui, bad[0] if bad else br, "a list selector never yields the unchanged index", "",
                  "a path of the list-selector branch returns `self`: a list naming the keys in another order (or with repeats) is ignored")
    idd = TI.methods["_index_into_domain"]
    fsp, domp = idd.positional_params[1:3]
    ok = Snips(idd).has(f"type({fsp})([{domp}.index(e) for e in {fsp}])")
    ctx.check(ok, "LIST-1", idd, idd.node, "selector keys are mapped to their positions in order", "", "key-to-position mapping changed")
    dt = P.cls("domaintuple").methods["index"]
    ctx.check(Snips(dt).has(f"return self._index[{dt.positional_params[1]}]"), "LIST-1", dt, dt.node, "domain position lookup is by the element itself", "", "domain index lookup changed")
    # IFC-3: MDP tables
    st = P.method("StateTable", "__getitem__")
    hs = [h for n in ast.walk(st.node) if isinstance(n, ast.Try) for h in n.handlers]
    handled = []
    for h in hs:
        ts = [h.type] if not isinstance(h.type, ast.Tuple) else list(h.type.elts)
        handled += [getattr(t, "id", getattr(t, "attr", "?")) for t in ts if t is not None]
    rs = raise_set(ctx, G, P.method("table.table.Table", "__getitem__"))
    for m in ("_array_index", "_updated_index", "_index_into_fields", "_index_into_domain", "_pad_out_ellipses"):
        if m in TI.methods:
            for k, v in raise_set(ctx, G, TI.methods[m]).items():
                rs.setdefault(k, v)
    ctx.extra["raise_set"] = sorted(rs)
    for e in sorted(x for x in rs if x != "SliceError"):
        f, node = rs[e]
        covered = any(a in handled for a in exc_ancestors(P, e))
        ctx.check(covered, "IFC-3", st, node, f"StateTable.__getitem__ converts {e} into the state/action index error", f"handlers {handled}",
                  f"`{e}` (raised in {f.name} for a key outside the domain) is not caught by StateTable.__getitem__ ({handled}): MDP tables raise a foreign error type")
    ok = any(isinstance(n, ast.Raise) and "StateActionIndexError" in ast.unparse(n) for h in hs for n in ast.walk(h))
    ctx.check(ok, "IFC-3", st, st.node, "the handler raises StateActionIndexError", "", "the handler does not raise the state/action index error")
    get = P.method("AbstractTable", "get")
    hs2 = [h for n in ast.walk(get.node) if isinstance(n, ast.Try) for h in n.handlers]
    handled2 = []
    for h in hs2:
        ts = [h.type] if not isinstance(h.type, ast.Tuple) else list(h.type.elts)
        handled2 += [getattr(t, "id", getattr(t, "attr", "?")) for t in ts if t is not None]
    for e in sorted(x for x in rs if x != "SliceError"):
        covered = any(a in handled2 for a in exc_ancestors(P, e))
        ctx.check(covered, "IFC-3", get, rs[e][1], f"get() returns the default for {e}", f"handlers {handled2}", f"`{e}` escapes AbstractTable.get ({handled2})")
    sai = P.find_cls("StateActionIndexError")
    ok = sai is not None and "IndexError" in exc_ancestors(P, "StateActionIndexError")
    ctx.check(ok, "IFC-3", st, st.node, "StateActionIndexError is an IndexError", "", "the index error class changed its base")
    # validation: the three shapes are bound by what they are computed from, then compared
    vt = T.methods["_validate_table"]
    SV = Snips(vt)
    sol = SV.solve(["coords_shape = tuple([len(c1) for c1 in self.table_index.field_domains])",
                    "unique_shape = tuple([len(set(c2)) for c2 in self.table_index.field_domains])",
                    "data_shape = self._data.shape"])
    ok = False
    if sol is not None:
        want = {sol[0]["coords_shape"], sol[0]["unique_shape"], sol[0]["data_shape"]}
        for n in ast.walk(vt.node):
            if isinstance(n, ast.If) and isinstance(n.test, ast.UnaryOp) and isinstance(n.test.op, ast.Not) and isinstance(n.test.operand, ast.Compare):
                c = n.test.operand
                operands = [c.left] + list(c.comparators)
                if len(want) == 3 and len(operands) == 3 and all(isinstance(o, ast.Eq) for o in c.ops) and all(isinstance(o, ast.Name) for o in operands) \
                        and {o.id for o in operands} == want and any(SV.has("raise ValueError(REST)", within=b) for b in n.body):
                    ok = True
    ctx.check(ok, "VAL-1", vt, vt.node, "validation rejects duplicate coordinates and shape mismatches", "", "validation no longer compares data shape, coordinate counts and unique counts")
    init = T.methods["__init__"]
    ctx.check("self._validate_table()" in ast.unparse(init.node), "VAL-1", init, init.node, "tables are validated on construction", "", "validation is not run on construction")
    for rr, k in (("ORD-1", 2), ("NOOP-1", 7), ("KEY-1", 3), ("ROW-1", 1), ("POL-1", 1), ("LIST-1", 5), ("IFC-3", 10), ("VAL-1", 2)):
        ctx.require(rr, k)
    ctx.assume("keys of different fields do not collide with domain elements of the outermost field in ways that change resolution (runtime values)")

"""C02 — exact policy evaluation.  TEN-1/2/3/4/6, BEL-1/2/3/6 on both branches of TabularPolicy.evaluate_on."""
from __future__ import annotations

import ast
from typing import Dict, List, Optional

from ..bellman import (check_einsums, check_elementwise, check_mask_stores, check_sinks, check_discount_degree,
                       check_ingredients, calls_of, loc_of, monomials, classify_monomial, _mask_name)
from ..callgraph import CallGraph, ext_name
from ..cfg import cfg_of
from ..dag import T, walk, show, deep_inline, simplify
from ..model import FunctionInfo, AnalysisError, dotted
from ..report import Ctx
from ..tensor import Typer, kwarg_t, const_int
from ..util import cmp_views, has_cmp, norm, fn_body_nodes, kwarg
from .c01 import result_kwargs, table_data, strip, mask_chain, addends
from ..pat import Snips
from .common import arg_permutation_rule, names_in, calls_named

EXPLANATION = (
    "Tensor axis-role / variance typing and Bellman-form analysis of both branches of TabularPolicy.evaluate_on on the "
    "expression DAG: absorbing rows of the policy's Markov chain and of the state rewards are zeroed (on the source axis) "
    "before the inverse, the system matrix is eye - gamma*P (eye - P in the gamma==1 branch, with recurrent rows removed), "
    "values bind the reward vector to the successor axis and occupancies bind the initial distribution to the source axis of "
    "the successor representation, action values are reward + log(availability) + discounted future, -inf is assigned under "
    "the negative-recurrent-accessible mask, the policy matrix is laid out over the MDP's own lists. The classification of "
    "transient / recurrent states on runtime graphs, invertibility and tolerances are not decided.")
RULES = ("TEN-1 einsum kinds; TEN-2 variance of contractions with the successor representation; TEN-3 mask axis and table sinks; "
         "BEL-1 ingredients; BEL-2 discount degree; BEL-3 masks before the inverse; BEL-6 initial value; DISP-1 dispatch on the "
         "discount rate; REC-1..4 undiscounted branch structure; MAT-1 policy matrix layout; TAB-1 to_tabular store provenance")


def analyse_branch(ctx: Ctx, typer: Typer, fi: FunctionInfo, who: str, discounted: bool, seen: set):
    X = ctx.X
    term = simplify(deep_inline(X, X.returns(fi), 2))
    kw = result_kwargs(term, "Result")
    if kw is None:
        raise AnalysisError(f"{fi.qualname}: result constructor not found")
    sv, av, occ = table_data(kw["state_value"]), table_data(kw["action_value"]), table_data(kw["state_occupancy"])
    if sv is None or av is None or occ is None:
        raise AnalysisError(f"{fi.qualname}: result tables not recognised")
    need = ["transition_matrix", "state_action_reward_matrix|reward_matrix", "absorbing_state_vec"]
    if discounted:
        need.append("discount_rate")
    check_ingredients(ctx, sv, typer, fi, fi.node, f"{who} state_value", need)
    check_ingredients(ctx, av, typer, fi, fi.node, f"{who} action_value", need + ["action_matrix"])
    check_ingredients(ctx, occ, typer, fi, fi.node, f"{who} state_occupancy", ["transition_matrix", "initial_state_vec", "absorbing_state_vec"])
    # successor representation = inv(eye - gamma * P)
    invs = calls_of(term, {"numpy.linalg.inv"})
    if not invs:
        ctx.violation("BEL-2", fi, fi.node, f"{who}: successor representation by matrix inverse", "no inverse reaches the result")
        return
    inv = invs[0]
    ifi, inode = loc_of(inv, fi)
    A = inv.args[1][0]
    ms = monomials(A)
    eye = [m for m in ms if classify_monomial(typer, m)["eye"]]
    ctx.check(bool(eye), "BEL-2", ifi, inode, f"{who}: system matrix has the identity term", "", "the system matrix has no identity term")
    for m in ms:
        c = classify_monomial(typer, m)
        if c["T"]:
            want = 1 if discounted else 0
            ctx.check(c["disc"] == want, "BEL-2", ifi, inode, f"{who}: chain term carries the discount {want} time(s)", f"degree {c['disc']}",
                      f"in the system matrix the policy's Markov chain is multiplied by the discount rate {c['disc']} time(s); expected {want}")
    # sign: eye - chain
    ok = A.op == "binop" and A.args[0] == "-" and any(x.op == "call" and ext_name(x.args[0]) == "numpy.eye" for x in walk(A.args[1]))
    ctx.check(ok, "BEL-2", ifi, inode, f"{who}: system matrix is eye - (...)", "", f"system matrix is `{show(A, 60)}`")
    # masks: absorbing rows of the chain zeroed before the inverse
    chain = None
    for a in addends(A):
        core = a
        while core.op == "binop" and core.args[0] == "*":
            core = core.args[2] if (core.args[1].op in ("attr", "const") or typer.roles(core.args[1]) == ()) else core.args[1]
        if any(b == "transition_matrix" for _, b in _chain_paths(typer, core)):
            chain = core
    if chain is None:
        ctx.unknown("BEL-3", ifi, inode, f"{who}: chain operand", "not recognised")
    else:
        paths = _chain_paths(typer, chain)
        ok = all("absorbing_state_vec" in msk for msk, b in paths)
        ctx.check(ok, "BEL-3", ifi, inode, f"{who}: absorbing rows of the chain are zeroed before the inverse", f"{len(paths)} path(s)",
                  "on some def-use path the rows of absorbing states are not removed from the policy's Markov chain before it is inverted")
    # values = SR . rewards  (variance checked by TEN-2); rewards have absorbing rows zeroed
    svd = strip(sv)
    svd = svd.args[2] if svd.op == "where" else svd
    es = calls_of(svd, {"numpy.einsum"})
    if es:
        ops = es[0].args[1][1:]
        rw = [o for o in ops if typer.variance(o) == "Fn" and typer.roles(o) is not None and len(typer.roles(o)) == 1]
        if rw:
            paths = mask_chain(typer, rw[0])
            paths2 = _reward_paths(typer, rw[0])
            ok = all("absorbing_state_vec" in msk for msk in paths2) if paths2 else None
            efi, enode = loc_of(es[0], fi)
            ctx.check(ok, "BEL-3", efi, enode, f"{who}: rewards of absorbing states are zeroed before the value contraction", "",
                      "the state-reward vector keeps rewards of absorbing states")
    # action values: reward + log(availability) + gamma * T V
    avi = strip(av)
    terms = addends(avi)
    has_pen = any(a.op == "call" and ext_name(a.args[0]) == "numpy.log" and typer.base_array(a.args[1][0]) == "action_matrix" for a in terms)
    ctx.check(has_pen, "BEL-1", fi, fi.node, f"{who}: action values carry log(action_matrix)", "", "unavailable actions are not penalised with -inf in the action values")
    has_r = any(typer.base_array(a) in ("state_action_reward_matrix", "reward_matrix") for a in terms)
    ctx.check(has_r, "BEL-1", fi, fi.node, f"{who}: action values carry the immediate reward", "", "action values lack the immediate reward term")
    if discounted:
        check_discount_degree(ctx, avi, typer, fi, fi.node, f"{who} action values")
    else:
        fut = [a for a in terms if any(b == "transition_matrix" for b in [typer.base_array(x) for x in walk(a) if x.op == "attr"])]
        ctx.check(bool(fut), "BEL-1", fi, fi.node, f"{who}: action values carry the future term T*V", "", "action values lack the future term")
    # initial value
    iv = kw["initial_value"]
    ok = any(typer.base_array(x) == "initial_state_vec" for x in walk(iv)) and any(x.key() == strip(sv).key() or (strip(sv).op == "where" and x.key() == strip(sv).key()) for x in walk(iv))
    if not ok:
        # the undiscounted branch multiplies the (masked) value vector elementwise
        ok = any(typer.base_array(x) == "initial_state_vec" for x in walk(iv)) and any(x.op in ("where", "call") and typer.variance(x) == "Fn" for x in walk(iv))
    ctx.check(ok, "BEL-6", fi, fi.node, f"{who}: initial_value = <reported state values, initial_state_vec>", "", f"initial value is `{show(iv, 80)}`")
    check_einsums(ctx, term, typer, fi, seen=seen)
    check_elementwise(ctx, term, typer, fi, seen=seen)
    check_mask_stores(ctx, term, typer, fi, seen=seen)
    check_sinks(ctx, term, typer, fi)
    return term, kw


def _chain_paths(typer: Typer, t: T):
    """mask_chain through the einsum that forms the policy's Markov chain (san,sa->sn)."""
    t = strip(t)
    out = []
    if t.op == "where":
        idx, val, old = t.args
        items = list(idx.args[0]) if idx.op == "tuple" else [idx]
        m = _mask_name(typer, items[0]) if items else None
        zero = val.op == "const" and val.args[0] == 0
        for msk, b in _chain_paths(typer, old):
            out.append((msk | ({m} if m and zero else set()), b))
        return out
    if t.op == "call" and ext_name(t.args[0]) == "numpy.einsum":
        for o in t.args[1][1:]:
            for msk, b in mask_chain(typer, o):
                if b == "transition_matrix":
                    out.append((msk, b))
        return out
    if t.op == "phi":
        for a in t.args[0]:
            if a.op not in ("prev", "undef"):
                out += _chain_paths(typer, a)
        return out
    return mask_chain(typer, t)


def _reward_paths(typer: Typer, t: T) -> List[set]:
    t = strip(t)
    if t.op == "where":
        idx, val, old = t.args
        items = list(idx.args[0]) if idx.op == "tuple" else [idx]
        m = _mask_name(typer, items[0]) if items else None
        zero = val.op == "const" and val.args[0] == 0
        return [p | ({m} if m and zero else set()) for p in _reward_paths(typer, old)]
    if t.op == "phi":
        out = []
        for a in t.args[0]:
            if a.op not in ("prev", "undef"):
                out += _reward_paths(typer, a)
        return out
    return [set()]


def rule_dispatch(ctx: Ctx):
    P = ctx.P
    f = P.method("TabularPolicy", "evaluate_on")
    cfg = cfg_of(f)
    branches = [n for n in cfg.nodes if n.kind == "if" and "discount_rate" in ast.unparse(n.ast.test)]
    seen = {}
    for n in branches:
        t = n.ast.test
        for l, op, r in cmp_views(t):
            if "discount_rate" in l and r in ("1.0", "1"):
                first = [c.func.attr for st in n.ast.body for c in ast.walk(st) if isinstance(c, ast.Call) and isinstance(c.func, ast.Attribute)]
                seen[{"<": "Lt", "==": "Eq"}.get(op, op)] = first
    ctx.check(seen.get("Lt", [None])[0] == "_evaluate_on_discounted", "DISP-1", f, f.node, "discount < 1 -> discounted evaluation", str(seen),
              "the discounted branch is not taken exactly when discount_rate < 1")
    ctx.check(seen.get("Eq", [None])[0] == "_evaluate_on_undiscounted", "DISP-1", f, f.node, "discount == 1 -> undiscounted evaluation", str(seen),
              "the undiscounted branch is not taken exactly when discount_rate == 1")
    raises = [n for n in cfg.nodes if n.kind == "stmt" and isinstance(n.ast, ast.Raise)]
    ctx.check(bool(raises), "DISP-1", f, f.node, "other discount rates are rejected", "", "discount rates above 1 are not rejected")
    asserts = [n for n in fn_body_nodes(f) if isinstance(n, ast.Assert)]
    ok = any("action_list" in ast.unparse(a.test) and "<=" in ast.unparse(a.test) for a in asserts)
    ctx.check(ok, "DISP-1", f, asserts[0] if asserts else f.node, "policy actions must be a subset of the MDP's", "", "the action-set precondition is missing")


def rule_policy_matrix(ctx: Ctx, typer: Typer):
    """MAT-1 (F20): the policy matrix is laid out over the MDP's state and action lists; only inclusions that the caller
    asserted are relied upon."""
    P = ctx.P
    f = P.find_fn("TabularPolicy._policy_matrix_on")
    users = [P.method("TabularPolicy", "_evaluate_on_discounted"), P.method("TabularPolicy", "_evaluate_on_undiscounted")]
    for u in users:
        um = u.positional_params[1]
        # the policy matrix of an evaluation = the policy-shaped operand of its chain einsum  einsum(_, mdp.transition_matrix, <pm>)
        SU = Snips(u)
        ch = SU.find(f"np.einsum(ANY, {um}.transition_matrix, pm)")
        pmn = ch[0][1]["pm"] if ch else None
        defs = [n for n in fn_body_nodes(u) if isinstance(n, ast.Assign) and isinstance(n.targets[0], ast.Name) and n.targets[0].id == pmn]
        if not defs:
            ctx.unknown("MAT-1", u, u.node, "policy matrix definition", "not found")
            continue
        v = defs[0].value
        src = ast.unparse(v)
        if f"[:,{um}.action_list]" in src.replace(" ", ""):
            ctx.violation("MAT-1", u, defs[0], "policy table selected with the MDP's action list",
                          "`self[...][:, mdp.action_list]` needs every MDP action to be a column of the policy table, but evaluate_on only "
                          "asserts the opposite inclusion (policy actions <= MDP actions): a policy over a subset of the actions raises")
        elif f is not None and isinstance(v, ast.Call) and ast.unparse(v.func).endswith("_policy_matrix_on"):
            ctx.passed("MAT-1", u, defs[0], "policy matrix built by the shared helper", src)
        else:
            ctx.unknown("MAT-1", u, defs[0], "policy matrix", f"unrecognised construction `{src[:60]}`")
    if f is not None:
        fm = f.positional_params[1]
        S = Snips(f)
        al = S.find(f"pm = np.zeros((len({fm}.state_list), len({fm}.action_list)))")
        ctx.check(bool(al), "MAT-1", f, al[0][0] if al else f.node, "matrix allocated over (mdp.state_list, mdp.action_list)", "", "policy matrix is not allocated over the MDP's lists")
        env = al[0][1] if al else {}
        cols = S.find(f"cols = [{fm}.action_list.index(a) for a in self.action_list]")
        ctx.check(bool(cols), "MAT-1", f, cols[0][0] if cols else f.node, "columns = positions of the policy's actions in mdp.action_list", "", "column mapping is not policy action -> position in the MDP's action list")
        if cols:
            env = {**env, "cols": cols[0][1]["cols"]}
        st = S.find(f"pm[:, cols] = np.array(self[{fm}.state_list,])", env)
        ctx.check(bool(st), "MAT-1", f, st[0][0] if st else f.node, "rows selected with the MDP's state list, written to the mapped columns", "", "rows are not selected with mdp.state_list / not written to the mapped columns")
        ctx.check(bool(env.get("pm")) and S.has("return pm", {"pm": env.get("pm")}), "MAT-1", f, f.node, "the laid-out matrix is returned", "", "a different matrix is returned")


def rule_undiscounted(ctx: Ctx, typer: Typer):
    P = ctx.P
    f = P.method("TabularPolicy", "_evaluate_on_undiscounted")
    um = f.positional_params[1]
    S = Snips(f)
    asserts = [n for n in fn_body_nodes(f) if isinstance(n, ast.Assert)]
    ok = any(has_cmp(a.test, f"{um}.state_action_reward_matrix", "<=", "0") for a in asserts)
    ctx.check(ok, "REC-1", f, asserts[0] if asserts else f.node, "non-positive rewards are asserted", "", "the reward-sign precondition is missing")
    cfg = cfg_of(f)
    # roles, bound structurally
    inv = S.find("sr = np.linalg.inv(np.eye(ANY) - chain)")
    chainn = inv[0][1]["chain"] if inv else None
    absn = S.find(f"absorbing = {um}.absorbing_state_vec.astype(bool)")
    env = {"chain": chainn, "absorbing": absn[0][1]["absorbing"] if absn else None}
    acc = S.find("accessible = floyd_warshall(chain > 0) < float('inf')", env)
    if acc:
        env["accessible"] = acc[0][1]["accessible"]
    # recurrent rows are removed from the chain before the inverse
    rec_store = S.find("chain[recurrent] = 0", env) if chainn else []
    rec_store = [(n, e) for n, e in rec_store if e["recurrent"] != env.get("absorbing")]
    if rec_store and inv:
        a, b = cfg.node_for(rec_store[0][0]), cfg.node_for(inv[0][0])
        ctx.check(cfg.dominates(a, b), "REC-2", f, rec_store[0][0],
                  "rows of recurrent states are zeroed before the inverse", "", "recurrent rows stay in the chain that is inverted (singular system)")
        env["recurrent"] = rec_store[0][1]["recurrent"]
    else:
        ctx.violation("REC-2", f, f.node, "rows of recurrent states are zeroed before the inverse", "no such store dominates the inverse")
    # state values = SR . state rewards; -inf under the negative-recurrent-accessible mask
    sv = S.find("sv = np.einsum(ANY, sr, rewards)", {"sr": inv[0][1]["sr"]} if inv else None)
    svn = sv[0][1]["sv"] if sv else None
    if sv:
        env["rewards"] = sv[0][1]["rewards"]
    st = [n for n in fn_body_nodes(f) if isinstance(n, ast.Assign) and isinstance(n.targets[0], ast.Subscript) and svn is not None
          and ast.unparse(n.targets[0].value) == svn and "inf" in ast.unparse(n.value)]
    if st:
        env0 = {k: v for k, v in env.items() if k in ("recurrent", "absorbing", "rewards", "accessible") and v}
        env0["sv"] = svn
        have = all(k in env0 for k in ("recurrent", "absorbing", "rewards", "accessible"))
        # each definition may be a named temporary or written in place (Snips binds an unnamed occurrence virtually)
        r3 = S.solve(["negrec = recurrent & (rewards < 0)", "mask = accessible[:, negrec].any(-1)", "sv[mask] = E_val"], env0) if have else None
        ctx.check(r3 is not None, "REC-3", f, st[0], "-inf exactly where a negative recurrent class is accessible", "",
                  "-inf is not assigned under the mask `accessible[:, <negative recurrent states>].any(-1)`: it must mark states from which a negative recurrent state is accessible")
        ok = ast.unparse(st[0].value) == "float('-inf')"
        ctx.check(ok, "REC-3", f, st[0], "the assigned value is -inf", "", f"assigned value is {ast.unparse(st[0].value)}")
        # (written after seed C02-c) every later use of the state values sees the -inf entries: the store dominates each statement that reads them
        sn = cfg.node_for(st[0])
        readers = [x for x in fn_body_nodes(f) if isinstance(x, ast.stmt) and x is not st[0] and not (sv and x is sv[0][0])
                   and any(isinstance(n_, ast.Name) and n_.id == svn and isinstance(n_.ctx, ast.Load) for n_ in ast.walk(x))
                   and not isinstance(x, (ast.For, ast.While, ast.If, ast.With, ast.Try, ast.FunctionDef))]
        late = [x for x in readers if not cfg.dominates(sn, cfg.node_for(x))]
        ctx.check(not late and bool(readers), "REC-3", f, late[0] if late else st[0], "the -inf entries are in place before the state values are used (action values, initial value, result)", "",
                  f"`{norm(late[0], 70) if late else ''}` reads the state values before the -inf entries are written: quantities derived there are computed from the finite stale values")
        r2 = S.solve(["negrec = recurrent & (rewards < 0)", "ANY[:, negrec]"], env0) if have else None
        ctx.check(r2 is not None, "REC-3", f, r2[1][0] if r2 else f.node, "negative recurrent = recurrent and paying negative reward", "", "negative recurrent states are not recurrent & (state_rewards < 0)")
        rs = S.find("recurrent = ~transient & ~absorbing", {k: v for k, v in env0.items() if k in ("recurrent", "absorbing")}) if have else []
        ctx.check(bool(rs), "REC-3", f, rs[0][0] if rs else f.node, "recurrent = not transient and not absorbing", "", "recurrent states are not (~transient & ~absorbing)")
    else:
        ctx.violation("REC-3", f, f.node, "-inf for states that reach a negative recurrent class", "no -inf assignment to the state values")
    # occupancy inf for initially accessible recurrent states
    oc = S.find(f"occ = np.einsum(ANY, sr, {um}.initial_state_vec)", {"sr": inv[0][1]["sr"]} if inv else None)
    ocs = S.find("occ[iar] = float('inf')", {"occ": oc[0][1]["occ"]}) if oc else []
    ok = bool(ocs) and env.get("recurrent") is not None and env.get("accessible") is not None and \
        bool(S.find(f"iar = accessible[{um}.initial_state_vec > 0].any(0) & recurrent", {"iar": ocs[0][1]["iar"], "accessible": env["accessible"], "recurrent": env["recurrent"]}))
    ctx.check(ok, "REC-4", f, ocs[0][0] if ocs else f.node, "occupancy of initially accessible recurrent states is inf", "", "infinite occupancies are not reported for recurrent states accessible from the initial distribution")
    # nan-safe products
    nans = S.find("x[np.isnan(x)] = 0")
    ctx.check(len(nans) >= 2, "REC-4", f, nans[0][0] if nans else f.node, "inf*0 products are set to 0 (future value and initial value)", "", "inf*0 = nan is not neutralised")


def rule_to_tabular(ctx: Ctx):
    P = ctx.P
    f = P.method("mdp.policy.Policy", "to_tabular")
    slp, alp = f.positional_params[1:3]
    S = Snips(f)
    st = [n for n in fn_body_nodes(f) if isinstance(n, ast.Assign) and isinstance(n.targets[0], ast.Subscript) and isinstance(n.targets[0].slice, ast.Tuple)]
    if not st:
        ctx.violation("TAB-1", f, f.node, "policy_matrix[si, ai] = prob", "no element store")
        return
    s = st[0]
    idx = [ast.unparse(e) for e in s.targets[0].slice.elts]
    loops = [n for n in fn_body_nodes(f) if isinstance(n, ast.For)]
    outer = [l for l in loops if isinstance(l.target, ast.Tuple) and f"enumerate({slp})" in ast.unparse(l.iter)]
    inner = [l for l in loops if isinstance(l.target, ast.Tuple) and "action_dist" in ast.unparse(l.iter)]
    ok = bool(outer) and bool(inner)
    if ok:
        si, sv = [e.id for e in outer[0].target.elts]
        av, pv = [e.id for e in inner[0].target.elts]
        ok = ast.unparse(inner[0].iter) == f"self.action_dist({sv}).items()"
        ctx.check(ok, "TAB-1", f, inner[0], "probabilities come from self.action_dist(<row state>)", "", f"inner loop iterates {ast.unparse(inner[0].iter)}")
        ai = S.find(f"action_index = {{a: i for i, a in enumerate({alp})}}")
        ctx.check(bool(ai) if ai else None, "TAB-1", f, ai[0][0] if ai else f.node, "action_index maps actions to their positions in action_list", "", "idiom not recognised")
        aidx = [n for n in ast.walk(inner[0]) if isinstance(n, ast.Assign) and ast.unparse(n.targets[0]) == idx[1]]
        ok = bool(aidx) and bool(ai) and ast.unparse(aidx[0].value) == f"{ai[0][1]['action_index']}[{av}]"
        ctx.check(ok, "TAB-1", f, aidx[0] if aidx else s, "column index is the position of that action", "", "column index is not the position of the action whose probability is stored")
        ctx.check(idx[0] == si and ast.unparse(s.value) == pv, "TAB-1", f, s, "policy_matrix[row of s, column of a] = prob(a|s)", "", f"store is {ast.unparse(s)}")
        pmn = ast.unparse(s.targets[0].value)
        ok = S.has(f"pm = np.zeros((len({slp}), len({alp})))", {"pm": pmn}) and S.has(f"return TabularPolicy.from_state_action_lists(state_list={slp}, action_list={alp}, data=pm)", {"pm": pmn})
        ctx.check(ok, "TAB-1", f, s, "the matrix is allocated over and returned with the given lists", "", "the table is not laid out over (state_list, action_list)")
    else:
        ctx.unknown("TAB-1", f, f.node, "to_tabular loops", "not recognised")


def run(ctx: Ctx):
    P = ctx.P
    G = CallGraph(P, ctx.X)
    typer = Typer()
    seen: set = set()
    analyse_branch(ctx, typer, P.method("TabularPolicy", "_evaluate_on_discounted"), "discounted", True, seen)
    analyse_branch(ctx, typer, P.method("TabularPolicy", "_evaluate_on_undiscounted"), "undiscounted", False, seen)
    rule_dispatch(ctx)
    rule_policy_matrix(ctx, typer)
    rule_undiscounted(ctx, typer)
    rule_to_tabular(ctx)
    for r, k in (("TEN-1", 6), ("TEN-2", 4), ("TEN-3", 8), ("BEL-1", 12), ("BEL-2", 7), ("BEL-3", 3), ("BEL-6", 2), ("DISP-1", 4),
                 ("MAT-1", 4), ("REC-1", 1), ("REC-2", 1), ("REC-3", 4), ("REC-4", 2), ("TAB-1", 3)):
        ctx.require(r, k)
    ctx.assume("floyd_warshall reachability and the `< 1` row-sum test classify transient / recurrent states correctly (runtime graph data)")
    ctx.assume("eye - gamma*P is invertible for gamma < 1; eye - P is invertible once recurrent and absorbing rows are removed")

"""E4 — tensor axis roles over expression-DAG terms.

Axis roles: S (state, 'from'), S2 (state, 'to'), A, O, B (batch/belief index), N (node, from), N2 (node, to),
'1' (unit), '?' (unknown).  roles(t) is a tuple of roles or None (rank unknown / scalar).
Variance of state vectors: 'Fn' (function of the state: values, rewards, masks, alpha vectors) or 'Ms'
(measure over states: beliefs, initial_state_vec, occupancies)."""
from __future__ import annotations

from typing import Dict, List, Optional, Tuple

from .callgraph import ext_name
from .dag import T, walk
from .model import FunctionInfo

KIND = {"S": "state", "S2": "state", "A": "action", "O": "obs", "B": "batch", "N": "node", "N2": "node",
        "1": "unit", "?": None}

MODEL_ARRAYS: Dict[str, Tuple[str, ...]] = {
    "transition_matrix": ("S", "A", "S2"),
    "reward_matrix": ("S", "A", "S2"),
    "state_action_reward_matrix": ("S", "A"),
    "action_matrix": ("S", "A"),
    "initial_state_vec": ("S",),
    "absorbing_state_vec": ("S",),
    "_unable_to_reach_absorbing": ("S",),
    "dead_end_state_vec": ("S",),
    "reachable_state_vec": ("S",),
    "observation_matrix": ("A", "S2", "O"),
}
MASKS = {"absorbing_state_vec", "_unable_to_reach_absorbing", "dead_end_state_vec"}
MS_SOURCES = {"initial_state_vec"}
LIST_ROLE = {"state_list": "S", "action_list": "A", "observation_list": "O"}

PRESERVE_METHODS = {"copy", "astype", "detach", "numpy", "contiguous", "clone", "double", "float", "view_as", "setflags",
                    "to", "cpu", "squeeze_", "bool", "tolist"}
PRESERVE_FUNCS = {"numpy.log", "numpy.exp", "numpy.abs", "numpy.around", "numpy.copy", "numpy.array", "numpy.asarray",
                  "numpy.isnan", "numpy.isinf", "numpy.nan_to_num", "numpy.sqrt", "numpy.negative", "numpy.logical_not",
                  "torch.tensor", "torch.from_numpy", "torch.log", "torch.exp", "torch.abs", "torch.clamp", "numpy.zeros_like",
                  "numpy.ones_like", "torch.zeros_like", "torch.ones_like", "numpy.round"}
BROADCAST_FUNCS = {"numpy.isclose", "torch.isclose", "numpy.maximum", "numpy.minimum", "numpy.where", "numpy.logical_and",
                   "numpy.logical_or", "torch.where", "numpy.multiply", "numpy.add", "numpy.subtract", "numpy.divide"}
REDUCERS = {"max", "min", "sum", "any", "all", "mean", "argmax", "argmin", "prod", "nansum", "amax", "amin", "logsumexp"}
AXISWISE_KEEP = {"softmax", "log_softmax", "cumsum"}


def unify(a: str, b: str) -> str:
    if a == b:
        return a
    if a in ("?", "1"):
        return b
    if b in ("?", "1"):
        return a
    if KIND[a] == KIND[b]:
        return a
    return "!"       # kind conflict


def broadcast(ra: Optional[Tuple[str, ...]], rb: Optional[Tuple[str, ...]]) -> Optional[Tuple[str, ...]]:
    if ra is None:
        return rb
    if rb is None:
        return ra
    n = max(len(ra), len(rb))
    pa = ("1",) * (n - len(ra)) + tuple(ra)
    pb = ("1",) * (n - len(rb)) + tuple(rb)
    out = []
    for x, y in zip(pa, pb):
        u = unify(x, y)
        out.append("?" if u == "!" else u)
    return tuple(out)


def const_int(t: T) -> Optional[int]:
    if t.op == "const" and isinstance(t.args[0], int) and not isinstance(t.args[0], bool):
        return t.args[0]
    if t.op == "unary" and t.args[0] == "-" and t.args[1].op == "const" and isinstance(t.args[1].args[0], int):
        return -t.args[1].args[0]
    return None


def kwarg_t(call: T, name: str) -> Optional[T]:
    for k, v in call.args[2]:
        if k == name:
            return v
    return None


def unzip(t: T) -> Optional[T]:
    """elem(zip(a, b, c), (i,)) -> the i-th zipped collection; elem(x, ()) -> x.  (one leading axis is iterated away)"""
    if t.op != "elem":
        return None
    it, path = t.args[0], t.args[1]
    if it.op == "call" and it.args[0].op == "builtin" and it.args[0].args[0] == "zip" and len(path) == 1 \
            and isinstance(path[0], int) and path[0] < len(it.args[1]):
        return it.args[1][path[0]]
    if it.op == "call" and it.args[0].op == "builtin" and it.args[0].args[0] == "enumerate" and path == (1,) and it.args[1]:
        return it.args[1][0]
    if path == ():
        return it
    return None


class Typer:
    def __init__(self, param_roles: Optional[Dict[str, Tuple[str, ...]]] = None, ms_params: Tuple[str, ...] = (),
                 param_arrays: Optional[Dict[str, str]] = None):
        self.param_roles = dict(param_roles or {})
        self.param_arrays = dict(param_arrays or {})     # parameter name -> model array it stands for (raw-array entry points)
        for pn, arr in self.param_arrays.items():
            self.param_roles.setdefault(pn, MODEL_ARRAYS[arr])
        self.ms_params = set(ms_params)
        self._memo: Dict[int, tuple] = {}
        self.prev_env: Dict[str, Tuple[str, ...]] = {}      # roles of loop-carried variables, set by the rules
        self.conflicts: List[Tuple[T, str]] = []

    # ------------------------------------------------------------------ provenance
    def leaves(self, t: T, depth: int = 0) -> set:
        """model-array attribute names this value is derived from through shape-preserving operations."""
        out = set()
        for x in walk(t):
            if x.op == "attr" and x.args[1] in MODEL_ARRAYS:
                out.add(x.args[1])
            if x.op == "param" and x.args[1] in self.param_arrays:
                out.add(self.param_arrays[x.args[1]])
            if x.op == "param" and x.args[1] in ("discount_rate", "gamma"):
                out.add("discount_rate")
            if x.op == "attr" and x.args[1] == "discount_rate":
                out.add("discount_rate")
        return out

    def base_array(self, t: T, depth: int = 0) -> Optional[str]:
        """the single model array a term *is* (up to copies, casts, partial stores, negation)."""
        if depth > 25:
            return None
        if t.op == "attr" and t.args[1] in MODEL_ARRAYS:
            return t.args[1]
        if t.op == "param" and t.args[1] in self.param_arrays:
            return self.param_arrays[t.args[1]]
        if t.op == "call":
            f = t.args[0]
            if f.op == "attr" and f.args[1] in PRESERVE_METHODS:
                return self.base_array(f.args[0], depth + 1)
            e = ext_name(f)
            if e in PRESERVE_FUNCS and t.args[1]:
                return self.base_array(t.args[1][0], depth + 1)
        if t.op == "where":
            b = self.base_array(t.args[2], depth + 1)
            if b is None and self._is_alloc(t.args[2]):
                # X = zeros(...); X[i] = model_array  (batch stacking)
                return self.base_array(t.args[1], depth + 1)
            return b
        if t.op == "elem":
            u = unzip(t)
            return self.base_array(u, depth + 1) if u is not None else None
        if t.op == "unary":
            return self.base_array(t.args[1], depth + 1)
        if t.op == "inlined":
            return self.base_array(t.args[1], depth + 1)
        if t.op == "proj":
            return self.base_array(t.args[0], depth + 1)
        if t.op == "phi":
            # a fresh allocation that is subsequently filled (X = zeros(...); X[i] = model) contributes nothing itself
            alts = [a for a in t.args[0] if a.op not in ("prev", "undef") and not self._pure_alloc(a)]
            bs = {self.base_array(a, depth + 1) for a in alts}
            return bs.pop() if len(bs) == 1 else None
        return None

    def _pure_alloc(self, t: T) -> bool:
        return t.op == "call" and ext_name(t.args[0]) in ("numpy.zeros", "numpy.ones", "numpy.empty", "torch.zeros")

    def stacked_value(self, t: T, depth: int = 0) -> Optional[T]:
        """for a batch array filled by X[i] = v: the stored value v (looking through phi / later partial stores)."""
        if depth > 20:
            return None
        if t.op == "where":
            if self._is_alloc(t.args[2]) and not any(self.stacked_value(t.args[2], depth + 1) is not None for _ in (0,)):
                return t.args[1]
            return self.stacked_value(t.args[2], depth + 1)
        if t.op == "phi":
            vs = [self.stacked_value(a, depth + 1) for a in t.args[0] if a.op not in ("prev", "undef") and not self._pure_alloc(a)]
            vs = [v for v in vs if v is not None]
            return vs[0] if vs else None
        return None

    def _is_alloc(self, t: T) -> bool:
        while t.op == "where":
            t = t.args[2]
        if t.op == "phi":
            return any(self._is_alloc(a) for a in t.args[0])
        return t.op == "call" and ext_name(t.args[0]) in ("numpy.zeros", "numpy.ones", "numpy.empty", "torch.zeros")

    # ------------------------------------------------------------------ roles
    def roles(self, t: T, depth: int = 0) -> Optional[Tuple[str, ...]]:
        k = id(t)
        hit = self._memo.get(k)
        if hit is not None and hit[0] is t:
            return hit[1]
        self._memo[k] = (t, None)        # keeps t alive, so its id cannot be reused
        r = self._roles(t, depth)
        self._memo[k] = (t, r)
        return r

    def _shape_roles(self, shape: T, depth: int) -> Optional[Tuple[str, ...]]:
        """roles of an array allocated with this shape expression."""
        if shape.op in ("tuple", "list"):
            out: List[str] = []
            for e in shape.args[0]:
                if e.op == "star":
                    inner = self._shape_roles(e.args[0], depth + 1)
                    if inner is None:
                        return None
                    out += list(inner)
                else:
                    out.append(self._dim_role(e, depth))
            return tuple(out)
        if shape.op == "binop" and shape.args[0] == "+":
            a = self._shape_roles(shape.args[1], depth + 1)
            b = self._shape_roles(shape.args[2], depth + 1)
            if a is None or b is None:
                return None
            return a + b
        if shape.op == "attr" and shape.args[1] == "shape":
            return self.roles(shape.args[0], depth + 1)
        if shape.op == "subscript" and shape.args[0].op == "attr" and shape.args[0].args[1] == "shape":
            base = self.roles(shape.args[0].args[0], depth + 1)
            idx = shape.args[1]
            if base is not None and idx.op == "slice":
                lo, hi = const_int(idx.args[0]), const_int(idx.args[1])
                return base[slice(lo, hi)]
            if base is not None and const_int(idx) is not None:
                return (base[const_int(idx)],) if -len(base) <= const_int(idx) < len(base) else None
            return None
        d = self._dim_role(shape, depth)
        return (d,)

    def _dim_role(self, e: T, depth: int) -> str:
        """role of one extent expression: len(x.state_list) -> S, x.shape[i] -> role i of x."""
        if e.op == "call" and e.args[0].op == "builtin" and e.args[0].args[0] == "len" and e.args[1]:
            a = e.args[1][0]
            for x in walk(a):
                if x.op == "attr" and x.args[1] in LIST_ROLE:
                    return LIST_ROLE[x.args[1]]
            r = self.roles(a, depth + 1)
            if r:
                return r[0]
            return "?"
        if e.op == "subscript" and e.args[0].op == "attr" and e.args[0].args[1] == "shape":
            base = self.roles(e.args[0].args[0], depth + 1)
            i = const_int(e.args[1])
            if base is not None and i is not None and -len(base) <= i < len(base):
                return base[i]
        if e.op == "const" and e.args[0] == 1:
            return "1"
        if e.op == "binop":
            # n_states + 1 keeps the kind
            for s in (e.args[1], e.args[2]):
                r = self._dim_role(s, depth + 1)
                if r not in ("?", "1"):
                    return r
        if e.op == "elem" or e.op == "subscript":
            # tuple-unpacked shapes:  nactions, nstates, nobs = O.shape
            src = e.args[0]
            path = e.args[1] if e.op == "elem" else None
            if e.op == "subscript" and src.op == "attr" and src.args[1] == "shape":
                pass
        if e.op == "subscript" and const_int(e.args[1]) is not None:
            base = e.args[0]
            if base.op == "attr" and base.args[1] == "shape":
                r = self.roles(base.args[0], depth + 1)
                i = const_int(e.args[1])
                if r is not None and -len(r) <= i < len(r):
                    return r[i]
        return "?"

    def _axis_arg(self, call: T, npos: int) -> Tuple[Optional[object], bool]:
        """(axis, keepdims) of a reduction call; axis may be int, tuple of ints or None."""
        ax = kwarg_t(call, "axis") or kwarg_t(call, "dim")
        kd = kwarg_t(call, "keepdims") or kwarg_t(call, "keepdim")
        if ax is None and len(call.args[1]) > npos:
            ax = call.args[1][npos]
        keep = bool(kd is not None and kd.op == "const" and kd.args[0] is True)
        if ax is None:
            return None, keep
        i = const_int(ax)
        if i is not None:
            return i, keep
        if ax.op == "tuple":
            xs = [const_int(e) for e in ax.args[0]]
            if all(x is not None for x in xs):
                return tuple(xs), keep
        return "unknown", keep

    def _reduce(self, r: Optional[Tuple[str, ...]], axis, keep: bool) -> Optional[Tuple[str, ...]]:
        if r is None or axis == "unknown":
            return None
        if axis is None:
            return ()
        axes = (axis,) if isinstance(axis, int) else axis
        axes = [a % len(r) for a in axes if -len(r) <= a < len(r)] if r else []
        out = []
        for i, x in enumerate(r):
            if i in axes:
                if keep:
                    out.append("1")
            else:
                out.append(x)
        return tuple(out)

    def index(self, base: Optional[Tuple[str, ...]], idx: T, depth: int = 0) -> Optional[Tuple[str, ...]]:
        if base is None:
            return None
        items = list(idx.args[0]) if idx.op == "tuple" else [idx]
        # expand ellipsis
        n_real = sum(1 for i in items if not (i.op == "const" and (i.args[0] is None or i.args[0] is Ellipsis)))
        out: List[str] = []
        pos = 0
        adv_positions: List[int] = []       # positions (in out) of axes produced by array-valued indices
        adv_roles: List[str] = []
        kinds_seq: List[str] = []           # 'adv' | 'slice' per consumed base axis, to detect separation
        for it in items:
            if it.op == "const" and it.args[0] is Ellipsis:
                fill = len(base) - n_real
                out += list(base[pos:pos + fill])
                kinds_seq += ["slice"] * fill
                pos += fill
                continue
            if it.op == "const" and it.args[0] is None:
                out.append("1")
                continue
            if it.op == "attr" and it.args[1] == "newaxis":
                out.append("1")
                continue
            if pos >= len(base):
                return None
            if it.op == "slice":
                out.append(base[pos])
                kinds_seq.append("slice")
                pos += 1
                continue
            ri = self.roles(it, depth + 1)
            if ri is None or ri == ():
                # scalar index drops the axis
                kinds_seq.append("scalar")
                pos += 1
                continue
            if len(ri) == 1:
                # 1-d boolean mask / integer array keeps one axis of the indexed kind
                role = base[pos] if ri[0] in ("?",) or KIND.get(ri[0]) == KIND.get(base[pos]) else ri[0]
                adv_positions.append(len(out))
                adv_roles.append(role if ri[0] in ("?",) else (ri[0] if KIND.get(ri[0]) not in (None, KIND.get(base[pos])) else role))
                out.append(role)
                kinds_seq.append("adv")
                pos += 1
                continue
            return None
        if len(adv_positions) >= 2:
            # several index arrays broadcast to ONE axis; it goes first when they are separated by a slice
            first = adv_positions[0]
            role = adv_roles[0]
            advs = [i for i, k in enumerate(kinds_seq) if k == "adv"]
            separated = any(kinds_seq[i] == "slice" for i in range(advs[0], advs[-1]))
            rest = [x for i, x in enumerate(out) if i not in adv_positions]
            if separated:
                out = [role] + rest
            else:
                out = rest[:first] + [role] + rest[first:]
        out += list(base[pos:])
        return tuple(out)

    def einsum_out(self, spec: str, ops: List[Optional[Tuple[str, ...]]]) -> Tuple[Optional[Tuple[str, ...]], Dict[str, str], List[str]]:
        """returns (output roles, letter->role, problems)."""
        problems: List[str] = []
        spec = spec.replace(" ", "")
        if "->" not in spec:
            return None, {}, problems
        ins, out = spec.split("->")
        subs = ins.split(",")
        letter: Dict[str, str] = {}
        if len(subs) != len(ops):
            return None, {}, [f"{len(subs)} subscripts for {len(ops)} operands"]
        for sub, r in zip(subs, ops):
            if r is None:
                continue
            if "." in sub:
                continue
            if len(sub) != len(r):
                problems.append(f"subscript '{sub}' has {len(sub)} letters but the operand has rank {len(r)} {r}")
                continue
            for ch, role in zip(sub, r):
                if ch in letter:
                    u = unify(letter[ch], role)
                    if u == "!":
                        problems.append(f"letter '{ch}' binds a {KIND[letter[ch]]} axis and a {KIND[role]} axis")
                    else:
                        # keep S/S2 distinction from the first *kernel* occurrence
                        if letter[ch] in ("?", "1"):
                            letter[ch] = role
                else:
                    letter[ch] = role
        for ch in out:
            if ch not in ins:
                problems.append(f"output letter '{ch}' does not occur in any input")
        return tuple(letter.get(ch, "?") for ch in out), letter, problems

    def _roles(self, t: T, depth: int) -> Optional[Tuple[str, ...]]:
        if depth > 60:
            return None
        op = t.op
        R = lambda x: self.roles(x, depth + 1)
        if op == "attr":
            if t.args[1] in MODEL_ARRAYS:
                return MODEL_ARRAYS[t.args[1]]
            if t.args[1] == "T":
                r = R(t.args[0])
                return tuple(reversed(r)) if r is not None else None
            if t.args[1] == "discount_rate":
                return ()
            return None
        if op == "param":
            return self.param_roles.get(t.args[1])
        if op == "const":
            return () if isinstance(t.args[0], (int, float)) else None
        if op == "inlined":
            return R(t.args[1])
        if op == "proj":
            return R(t.args[0])
        if op == "where":
            return R(t.args[2])
        if op == "prev":
            return self.prev_env.get(t.args[0])
        if op == "elem":
            u = unzip(t)
            if u is not None:
                r = R(u)
                return r[1:] if r else None
            return None
        if op == "phi":
            rs = [R(a) for a in t.args[0] if a.op not in ("prev", "undef")]
            rs = [r for r in rs if r is not None]
            if not rs:
                return None
            out = rs[0]
            for r in rs[1:]:
                if len(r) != len(out):
                    return None
                out = tuple(("?" if unify(a, b) == "!" else unify(a, b)) for a, b in zip(out, r))
            return out
        if op in ("binop",):
            o = t.args[0]
            if o == "@":
                a, b = R(t.args[1]), R(t.args[2])
                if a is None or b is None:
                    return None
                if len(a) >= 1 and len(b) == 1:
                    return a[:-1]
                if len(a) == 1 and len(b) >= 2:
                    return b[:-2] + b[-1:]
                if len(a) >= 2 and len(b) >= 2:
                    return a[:-1] + b[-1:]
                return None
            return broadcast(R(t.args[1]), R(t.args[2]))
        if op == "compare":
            out = None
            for x in t.args[1]:
                out = broadcast(out, R(x))
            return out
        if op == "unary":
            return R(t.args[1])
        if op == "ifexp":
            return R(t.args[1]) or R(t.args[2])
        if op == "subscript":
            base = R(t.args[0])
            if base is None:
                # tuple projection of an inlined multi-value return
                b = t.args[0]
                i = const_int(t.args[1])
                if b.op == "inlined" and i is not None:
                    ret = b.args[1]
                    alts = ret.args[0] if ret.op == "phi" else (ret,)
                    for a in alts:
                        if a.op == "tuple" and i < len(a.args[0]):
                            return R(a.args[0][i])
                return None
            return self.index(base, t.args[1], depth)
        if op == "tuple" or op == "list":
            return None
        if op == "call":
            f = t.args[0]
            args = t.args[1]
            e = ext_name(f)
            if f.op == "attr":
                name = f.args[1]
                recv = f.args[0]
                if name in PRESERVE_METHODS:
                    return R(recv)
                if name in REDUCERS and not (recv.op in ("modref",)):
                    if e is None:
                        axis, keep = self._axis_arg(t, 0)
                        return self._reduce(R(recv), axis, keep)
                if name in AXISWISE_KEEP and e is None:
                    return R(recv)
                if name in ("dot",) and e is None and args:
                    a, b = R(recv), R(args[0])
                    if a is not None and b is not None and len(a) >= 1 and len(b) >= 1:
                        return a[:-1] + b[1:]
                    return None
                if name in ("inverse",) and e is None:
                    return R(recv)
                if name in ("view", "reshape", "expand") and e is None:
                    return None
                if name == "item" and e is None:
                    return ()
            if e is not None:
                short = e.split(".")[-1]
                if e in ("numpy.einsum", "torch.einsum") and args and args[0].op == "const" and isinstance(args[0].args[0], str):
                    ops = [R(a) for a in args[1:]]
                    out, letters, problems = self.einsum_out(args[0].args[0], ops)
                    return out
                if e in PRESERVE_FUNCS and args:
                    return R(args[0])
                if e in BROADCAST_FUNCS and args:
                    out = None
                    for a in (args[1:] if short == "where" and len(args) == 3 else args[:2]):
                        out = broadcast(out, R(a))
                    return out
                if short in REDUCERS and e.split(".")[0] in ("numpy", "torch") and args:
                    axis, keep = self._axis_arg(t, 1)
                    return self._reduce(R(args[0]), axis, keep)
                if short in ("softmax", "log_softmax") and args:
                    return R(args[0])
                if e in ("numpy.zeros", "numpy.ones", "numpy.empty", "torch.zeros", "torch.ones", "numpy.full", "torch.rand") and args:
                    if len(args) > 1 and e.startswith("torch") and all(a.op != "tuple" for a in args):
                        return tuple(self._dim_role(a, depth) for a in args)
                    return self._shape_roles(args[0], depth)
                if e in ("numpy.eye", "torch.eye") and args:
                    d = self._dim_role(args[0], depth)
                    return ("S", "S2") if d in ("S", "S2") else (d, d)
                if e in ("numpy.linalg.solve", "torch.linalg.solve") and len(args) == 2:
                    return R(args[1])
                if e in ("numpy.linalg.inv", "torch.linalg.inv", "torch.inverse") and args:
                    return R(args[0])
                if e in ("numpy.arange",):
                    return ("?",)
                if e in ("numpy.diagonal",):
                    return None
            return None
        return None

    # ------------------------------------------------------------------ variance
    def variance(self, t: T, depth: int = 0) -> Optional[str]:
        """'Ms' | 'Fn' | None for state vectors."""
        if depth > 30:
            return None
        b = self.base_array(t)
        if b in MS_SOURCES:
            return "Ms"
        if b in MASKS or b in ("state_action_reward_matrix", "reward_matrix"):
            return "Fn"
        if t.op == "param" and t.args[1] in self.ms_params:
            return "Ms"
        if t.op in ("where",):
            return self.variance(t.args[2], depth + 1)
        if t.op == "elem":
            u = unzip(t)
            return self.variance(u, depth + 1) if u is not None else None
        if t.op == "inlined":
            return self.variance(t.args[1], depth + 1)
        if t.op == "proj":
            return self.variance(t.args[0], depth + 1)
        if t.op == "phi":
            vs = {self.variance(a, depth + 1) for a in t.args[0] if a.op not in ("prev", "undef")}
            vs.discard(None)
            return vs.pop() if len(vs) == 1 else None
        if t.op == "call":
            e = ext_name(t.args[0])
            if e in ("numpy.linalg.solve", "torch.linalg.solve"):
                return "Fn"
            if e in ("numpy.zeros", "torch.zeros"):
                return None
            if e in ("numpy.einsum", "torch.einsum"):
                return self._einsum_variance(t, depth)
            f = t.args[0]
            if f.op == "attr" and f.args[1] in PRESERVE_METHODS:
                return self.variance(f.args[0], depth + 1)
            if e in PRESERVE_FUNCS and t.args[1]:
                return self.variance(t.args[1][0], depth + 1)
            if f.op == "attr" and f.args[1] in ("max", "sum", "min") and ext_name(f) is None:
                return self.variance(f.args[0], depth + 1)
            if e is not None and e.split(".")[-1] in ("max", "sum", "min") and t.args[1]:
                return self.variance(t.args[1][0], depth + 1)
        if t.op == "binop" and t.args[0] in ("+", "-", "*", "/"):
            a, b2 = self.variance(t.args[1], depth + 1), self.variance(t.args[2], depth + 1)
            return a or b2
        if t.op == "subscript":
            return self.variance(t.args[0], depth + 1)
        return None

    def _einsum_variance(self, t: T, depth: int) -> Optional[str]:
        args = t.args[1]
        if not args or args[0].op != "const":
            return None
        ops = args[1:]
        vs = [self.variance(o, depth + 1) for o in ops]
        # reward x policy contractions give functions of the state; a kernel with an Ms vector gives a measure
        if "Ms" in vs and "Fn" not in vs:
            return "Ms"
        if "Fn" in vs and "Ms" not in vs:
            return "Fn"
        return None

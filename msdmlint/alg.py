"""ALG — sum-of-products normal form over opaque atoms.

poly: dict { monomial -> Fraction }, monomial = tuple(sorted((atom_text, power), ...)).
Supports + - * / (division by a monomial), unary minus, numeric constants, integer powers.
Anything else is an opaque atom (its normalised source text).  Two expressions agree iff their
polys are equal.  A `resolve(name)` callback may supply the defining expression of a local name."""
from __future__ import annotations

import ast
from fractions import Fraction
from typing import Callable, Dict, Optional, Tuple

Mono = Tuple[Tuple[str, int], ...]
Poly = Dict[Mono, Fraction]


def _const(c) -> Poly:
    c = Fraction(c).limit_denominator(10**9) if isinstance(c, float) else Fraction(c)
    return {(): c} if c != 0 else {}


def _atom(text: str) -> Poly:
    return {((text, 1),): Fraction(1)}


def add(p: Poly, q: Poly, sign: int = 1) -> Poly:
    r = dict(p)
    for m, c in q.items():
        v = r.get(m, Fraction(0)) + sign * c
        if v == 0:
            r.pop(m, None)
        else:
            r[m] = v
    return r


def _mmul(a: Mono, b: Mono) -> Mono:
    d: Dict[str, int] = {}
    for k, e in a + b:
        d[k] = d.get(k, 0) + e
    return tuple(sorted((k, e) for k, e in d.items() if e != 0))


def mul(p: Poly, q: Poly) -> Poly:
    r: Poly = {}
    for m1, c1 in p.items():
        for m2, c2 in q.items():
            m = _mmul(m1, m2)
            v = r.get(m, Fraction(0)) + c1 * c2
            if v == 0:
                r.pop(m, None)
            else:
                r[m] = v
    return r


def inv(p: Poly) -> Optional[Poly]:
    if len(p) != 1:
        return None
    (m, c), = p.items()
    if c == 0:
        return None
    return {tuple(sorted((k, -e) for k, e in m)): 1 / c}


def text(node: ast.AST) -> str:
    return " ".join(ast.unparse(node).split())


def normalise(node: ast.AST, resolve: Optional[Callable[[str], Optional[ast.AST]]] = None, depth: int = 0,
              atom_of: Optional[Callable[[ast.AST], Optional[str]]] = None) -> Poly:
    if depth > 30:
        return _atom(text(node))
    N = lambda n: normalise(n, resolve, depth + 1, atom_of)
    if atom_of is not None:
        a = atom_of(node)
        if a is not None:
            return _atom(a)
    if isinstance(node, ast.Constant) and isinstance(node.value, (int, float)) and not isinstance(node.value, bool):
        return _const(node.value)
    if isinstance(node, ast.UnaryOp) and isinstance(node.op, ast.USub):
        return mul(_const(-1), N(node.operand))
    if isinstance(node, ast.UnaryOp) and isinstance(node.op, ast.UAdd):
        return N(node.operand)
    if isinstance(node, ast.BinOp):
        if isinstance(node.op, ast.Add):
            return add(N(node.left), N(node.right))
        if isinstance(node.op, ast.Sub):
            return add(N(node.left), N(node.right), -1)
        if isinstance(node.op, ast.Mult):
            return mul(N(node.left), N(node.right))
        if isinstance(node.op, ast.Div):
            r = inv(N(node.right))
            if r is not None:
                return mul(N(node.left), r)
            return mul(N(node.left), {((f"1/({text(node.right)})", 1),): Fraction(1)})
        if isinstance(node.op, ast.Pow) and isinstance(node.right, ast.Constant) and isinstance(node.right.value, int) \
                and 0 <= node.right.value <= 6:
            r = _const(1)
            b = N(node.left)
            for _ in range(node.right.value):
                r = mul(r, b)
            return r
    if isinstance(node, ast.Name) and resolve is not None:
        d = resolve(node.id)
        if d is not None:
            return normalise(d, resolve, depth + 1, atom_of)
    return _atom(text(node))


def show(p: Poly) -> str:
    if not p:
        return "0"
    parts = []
    for m, c in sorted(p.items(), key=lambda kv: str(kv[0])):
        ms = "*".join(k if e == 1 else f"{k}^{e}" for k, e in m) or "1"
        cs = "" if c == 1 and m else ("-" if c == -1 and m else f"{c}*" if m else f"{c}")
        parts.append(f"{cs}{ms}" if m else f"{c}")
    return " + ".join(parts).replace("+ -", "- ")


def atoms(p: Poly):
    s = set()
    for m in p:
        for k, _ in m:
            s.add(k)
    return s

"""E1 program model: loader, symbols, classes + C3 MRO, call resolution.

Nothing in here imports or executes msdm: every fact comes from `ast.parse` of the files that
are on disk under <repo>/msdm at the time of the run.
"""
from __future__ import annotations

import ast
import builtins
import hashlib
import os
import warnings
from dataclasses import dataclass, field
from typing import Dict, List, Optional, Tuple, Iterable


class AnalysisError(Exception):
    """The analysis itself cannot proceed (parse failure, vanished anchor, ...): exit 2."""


EXCLUDED_SUFFIXES = ("/plotting.py", "/animating.py")
EXCLUDED_DIRS = ("msdm/tests/",)

CACHE_DECORATORS = {"method_cache", "lru_cache", "cached_property", "cache"}
PROPERTY_DECORATORS = {"property", "cached_property", "abstractproperty"}

BUILTIN_CLASS_ATTRS = {
    "dict": set(dir(dict)),
    "tuple": set(dir(tuple)),
    "list": set(dir(list)),
    "set": set(dir(set)),
    "object": set(dir(object)),
    "BaseException": set(dir(BaseException)),
    "Exception": set(dir(Exception)),
}
# exception hierarchy of the builtins the repo subclasses or raises
BUILTIN_EXC_PARENTS = {
    "BaseException": None, "Exception": "BaseException", "LookupError": "Exception",
    "KeyError": "LookupError", "IndexError": "LookupError", "ValueError": "Exception",
    "TypeError": "Exception", "AttributeError": "Exception", "NotImplementedError": "RuntimeError",
    "RuntimeError": "Exception", "AssertionError": "Exception", "StopIteration": "Exception",
    "ZeroDivisionError": "ArithmeticError", "ArithmeticError": "Exception",
    "UnboundLocalError": "NameError", "NameError": "Exception",
}


def deco_name(d: ast.expr) -> str:
    if isinstance(d, ast.Call):
        d = d.func
    if isinstance(d, ast.Attribute):
        return d.attr
    if isinstance(d, ast.Name):
        return d.id
    return "?"


def dotted(node: ast.expr) -> Optional[str]:
    """a.b.c -> 'a.b.c' for pure Name/Attribute chains."""
    parts = []
    while isinstance(node, ast.Attribute):
        parts.append(node.attr)
        node = node.value
    if isinstance(node, ast.Name):
        parts.append(node.id)
        return ".".join(reversed(parts))
    return None


@dataclass(eq=False)
class FunctionInfo:
    name: str
    qualname: str          # module.Class.func or module.func.<locals>.inner
    module: "Module"
    node: ast.AST          # FunctionDef | AsyncFunctionDef | Lambda
    cls: Optional["ClassInfo"] = None
    parent: Optional["FunctionInfo"] = None
    decorators: List[str] = field(default_factory=list)
    nested: Dict[str, "FunctionInfo"] = field(default_factory=dict)
    lambdas: List["FunctionInfo"] = field(default_factory=list)
    local_classes: Dict[str, "ClassInfo"] = field(default_factory=dict)

    @property
    def is_lambda(self) -> bool:
        return isinstance(self.node, ast.Lambda)

    @property
    def args(self) -> ast.arguments:
        return self.node.args

    @property
    def param_names(self) -> List[str]:
        a = self.args
        names = [x.arg for x in a.posonlyargs + a.args]
        if a.vararg:
            names.append(a.vararg.arg)
        names += [x.arg for x in a.kwonlyargs]
        if a.kwarg:
            names.append(a.kwarg.arg)
        return names

    @property
    def positional_params(self) -> List[str]:
        a = self.args
        return [x.arg for x in a.posonlyargs + a.args]

    @property
    def kwonly_params(self) -> List[str]:
        return [x.arg for x in self.args.kwonlyargs]

    def param_default(self, name: str) -> Optional[ast.expr]:
        a = self.args
        pos = a.posonlyargs + a.args
        for i, p in enumerate(pos):
            if p.arg == name:
                j = i - (len(pos) - len(a.defaults))
                return a.defaults[j] if j >= 0 else None
        for p, d in zip(a.kwonlyargs, a.kw_defaults):
            if p.arg == name:
                return d
        return None

    @property
    def is_method(self) -> bool:
        return self.cls is not None and self.parent is None

    @property
    def is_static(self) -> bool:
        return "staticmethod" in self.decorators

    @property
    def is_classmethod(self) -> bool:
        return "classmethod" in self.decorators

    @property
    def is_property(self) -> bool:
        return any(d in PROPERTY_DECORATORS for d in self.decorators)

    @property
    def is_abstract(self) -> bool:
        return any(d in ("abstractmethod", "abstractproperty") for d in self.decorators)

    @property
    def self_name(self) -> Optional[str]:
        if self.is_method and not self.is_static and self.positional_params:
            return self.positional_params[0]
        return None

    @property
    def body(self) -> List[ast.stmt]:
        if self.is_lambda:
            r = ast.Return(value=self.node.body)
            ast.copy_location(r, self.node.body)
            return [r]
        return self.node.body

    @property
    def lineno(self) -> int:
        return getattr(self.node, "lineno", 0)

    def loc(self, node: Optional[ast.AST] = None) -> str:
        ln = getattr(node, "lineno", None) if node is not None else None
        return f"{self.module.relpath}:{ln if ln is not None else self.lineno}"

    def __repr__(self):
        return f"<fn {self.qualname}>"


@dataclass(eq=False)
class ClassInfo:
    name: str
    qualname: str
    module: "Module"
    node: ast.ClassDef
    base_exprs: List[ast.expr] = field(default_factory=list)
    bases: List[object] = field(default_factory=list)     # ClassInfo | str (external)
    methods: Dict[str, FunctionInfo] = field(default_factory=dict)
    class_attrs: Dict[str, ast.expr] = field(default_factory=dict)   # name -> value (or None for bare annotation)
    annotations: Dict[str, ast.expr] = field(default_factory=dict)
    mro: List[object] = field(default_factory=list)
    parent_fn: Optional[FunctionInfo] = None
    dynamic_base: bool = False

    def __repr__(self):
        return f"<class {self.qualname}>"

    def lookup(self, attr: str):
        """MRO lookup.  Returns (owner, thing) where thing is FunctionInfo | ast.expr | 'builtin'."""
        for c in self.mro:
            if isinstance(c, ClassInfo):
                if attr in c.methods:
                    return c, c.methods[attr]
                if attr in c.class_attrs:
                    return c, c.class_attrs[attr]
            else:
                if attr in BUILTIN_CLASS_ATTRS.get(c, ()):  # builtin base
                    return c, "builtin"
        return None, None

    def is_subclass_of(self, other: "ClassInfo") -> bool:
        return other in self.mro

    def has_external_base(self, name: str) -> bool:
        return name in [c for c in self.mro if isinstance(c, str)]


@dataclass(eq=False)
class Module:
    name: str
    path: str
    relpath: str
    source: str
    tree: ast.Module
    imports: Dict[str, Tuple] = field(default_factory=dict)   # local -> ('module', dotted) | ('symbol', module, name)
    classes: Dict[str, ClassInfo] = field(default_factory=dict)
    functions: Dict[str, FunctionInfo] = field(default_factory=dict)
    assigns: Dict[str, List[ast.expr]] = field(default_factory=dict)
    lambdas: List[FunctionInfo] = field(default_factory=list)

    def __repr__(self):
        return f"<module {self.name}>"


def _strip_inert(tree: ast.Module) -> ast.Module:
    """`pass` statements and bare constant expression statements (docstrings, `...`) compute nothing: they are dropped from
    every block that has another statement, so that no rule depends on their presence or position."""
    for node in ast.walk(tree):
        for fld in ("body", "orelse", "finalbody"):
            b = getattr(node, fld, None)
            if isinstance(b, list) and b and isinstance(b[0], ast.stmt):
                nb = [st for st in b if not (isinstance(st, ast.Pass) or (isinstance(st, ast.Expr) and isinstance(st.value, ast.Constant)))]
                if nb:
                    setattr(node, fld, nb)
                elif len(b) > 1:
                    setattr(node, fld, b[:1])
    return tree


def _terminates(body) -> bool:
    return bool(body) and isinstance(body[-1], (ast.Return, ast.Continue, ast.Break, ast.Raise))


def _desugar_dict_builds(tree: ast.Module) -> ast.Module:
    """a dict built by a comprehension / dict(zip(..)) / dict.fromkeys(<generator>) and assigned to a name or a subscript is read as the loop that
    fills it, which is how the reviewed code spells it:
        T = {K: V for X in IT if C}      ->   T = {}   for X in IT:  if C:  T[K] = V
        T = dict(zip(A, B))              ->   T = {}   for k, v in zip(A, B):  T[k] = v
        T = dict.fromkeys(E for ...)     ->   T = {}   for ...:  T[E] = None"""
    def simple(t):
        return isinstance(t, ast.Name) or (isinstance(t, (ast.Subscript, ast.Attribute)) and not any(isinstance(x, (ast.Call, ast.NamedExpr)) for x in ast.walk(t)))

    def parts(v):
        if isinstance(v, ast.DictComp):
            return v.key, v.value, v.generators
        if isinstance(v, ast.Call) and isinstance(v.func, ast.Name) and v.func.id == "dict" and len(v.args) == 1 and not v.keywords:
            a = v.args[0]
            if isinstance(a, ast.Call) and isinstance(a.func, ast.Name) and a.func.id == "zip" and len(a.args) == 2 and not a.keywords:
                k, w = ast.Name(id="k__z", ctx=ast.Load()), ast.Name(id="v__z", ctx=ast.Load())
                tgt = ast.Tuple(elts=[ast.Name(id="k__z", ctx=ast.Store()), ast.Name(id="v__z", ctx=ast.Store())], ctx=ast.Store())
                return k, w, [ast.comprehension(target=tgt, iter=a, ifs=[], is_async=0)]
        if isinstance(v, ast.Call) and isinstance(v.func, ast.Attribute) and v.func.attr == "fromkeys" and isinstance(v.func.value, ast.Name) and v.func.value.id == "dict" \
                and len(v.args) == 1 and not v.keywords and isinstance(v.args[0], (ast.GeneratorExp, ast.ListComp)):
            return v.args[0].elt, ast.Constant(value=None), v.args[0].generators
        return None
    for fn in [n for n in ast.walk(tree) if isinstance(n, (ast.FunctionDef, ast.AsyncFunctionDef))]:
        for node in ast.walk(fn):
            for fld in ("body", "orelse", "finalbody"):
                b = getattr(node, fld, None)
                if not (isinstance(b, list) and b and isinstance(b[0], ast.stmt)):
                    continue
                i = 0
                while i < len(b):
                    st = b[i]
                    pr = parts(st.value) if isinstance(st, ast.Assign) and len(st.targets) == 1 and simple(st.targets[0]) else None
                    if pr is None or any(g.is_async for g in pr[2]):
                        i += 1
                        continue
                    key, val, gens = pr
                    tgt_txt = ast.unparse(st.targets[0])
                    bound = {x.id for g in gens for x in ast.walk(g.target) if isinstance(x, ast.Name)}
                    inside = {id(x) for x in ast.walk(st)}
                    used_elsewhere = {x.id for x in ast.walk(fn) if isinstance(x, ast.Name) and id(x) not in inside} | {a.arg for a in ast.walk(fn) if isinstance(a, ast.arg)}
                    if any(isinstance(x, ast.Name) and x.id in bound for x in ast.walk(st.targets[0])) or (bound & used_elsewhere):
                        i += 1          # the comprehension's own scope matters here: left as written
                        continue
                    load_t = ast.parse(tgt_txt, mode="eval").body
                    store = ast.Assign(targets=[ast.Subscript(value=load_t, slice=key, ctx=ast.Store())], value=val)
                    inner = [store]
                    for g in reversed(gens):
                        for c in reversed(g.ifs):
                            inner = [ast.If(test=c, body=inner, orelse=[])]
                        inner = [ast.For(target=g.target, iter=g.iter, body=inner, orelse=[])]
                    init = ast.Assign(targets=[st.targets[0]], value=ast.Dict(keys=[], values=[]))
                    for x in [init] + inner:
                        ast.copy_location(x, st)
                        for y in ast.walk(x):
                            if not hasattr(y, "lineno"):
                                ast.copy_location(y, st)
                        ast.fix_missing_locations(x)
                    b[i:i + 1] = [init] + inner
                    i += 2
    return tree


def _canon_all(tree: ast.Module) -> ast.Module:
    from .canon import canon
    return canon(tree, statements=True)      # nested ifs merged; the loop-guard form is left as written (rules read path conditions)


def _canon_control(tree: ast.Module) -> ast.Module:
    """two spellings of the same control flow are reduced to one, so that no rule depends on which was written:
      if not C: B else: A            ->  if C: A else: B          (B not an elif chain)
      if C: ...; return  else: REST  ->  if C: ...; return   REST  (the else of a branch that cannot fall through is flattened)"""
    for node in ast.walk(tree):
        if isinstance(node, ast.If) and node.orelse and isinstance(node.test, ast.UnaryOp) and isinstance(node.test.op, ast.Not) \
                and not (len(node.orelse) == 1 and isinstance(node.orelse[0], ast.If)):
            node.test, node.body, node.orelse = node.test.operand, node.orelse, node.body
    # if not C: A(terminates)   REST(terminates)   ->   if C: REST   A          (both orders are "either A or REST"; the positive test comes first)
    for node in ast.walk(tree):
        for fld in ("body", "orelse", "finalbody"):
            b = getattr(node, fld, None)
            if not (isinstance(b, list) and b and isinstance(b[0], ast.stmt)):
                continue
            for i, st in enumerate(b):
                if isinstance(st, ast.If) and not st.orelse and isinstance(st.test, ast.UnaryOp) and isinstance(st.test.op, ast.Not) and _terminates(st.body) \
                        and i + 1 < len(b) and _terminates(b[i + 1:]) and not any(isinstance(x, (ast.FunctionDef, ast.ClassDef)) for x in b[i + 1:]):
                    rest = b[i + 1:]
                    body = st.body
                    st.test, st.body = st.test.operand, rest
                    b[i + 1:] = body
                    break
    changed = True
    while changed:
        changed = False
        for node in ast.walk(tree):
            for fld in ("body", "orelse", "finalbody"):
                b = getattr(node, fld, None)
                if not (isinstance(b, list) and b and isinstance(b[0], ast.stmt)):
                    continue
                for i, st in enumerate(b):
                    if isinstance(st, ast.If) and st.orelse and _terminates(st.body):
                        rest, st.orelse = st.orelse, []
                        b[i + 1:i + 1] = rest
                        changed = True
                        break
                if changed:
                    break
            if changed:
                break
    return tree


class Program:
    def __init__(self, repo: str, overrides: Optional[Dict[str, str]] = None):
        self.repo = os.path.abspath(repo)
        self.overrides = overrides or {}
        self.modules: Dict[str, Module] = {}
        self.excluded: List[Tuple[str, str]] = []
        self.functions: Dict[str, FunctionInfo] = {}
        self.classes: Dict[str, ClassInfo] = {}
        self.fn_of_node: Dict[int, FunctionInfo] = {}
        self._methods_by_name: Dict[str, List[FunctionInfo]] = {}
        self._load()
        self._link()

    # ------------------------------------------------------------------ loading
    def _load(self):
        root = os.path.join(self.repo, "msdm")
        if not os.path.isdir(root):
            raise AnalysisError(f"no package directory {root}")
        h = hashlib.sha256()
        for dirpath, dirnames, filenames in sorted(os.walk(root)):
            dirnames.sort()
            for fn in sorted(filenames):
                if not fn.endswith(".py"):
                    continue
                path = os.path.join(dirpath, fn)
                rel = os.path.relpath(path, self.repo)
                if any(rel.startswith(d) for d in EXCLUDED_DIRS):
                    continue
                if any(("/" + rel).endswith(s) for s in EXCLUDED_SUFFIXES):
                    self.excluded.append((rel, "plotting/animation helper: no property anchors here"))
                    continue
                try:
                    src = self.overrides[rel] if rel in self.overrides else open(path, encoding="utf-8").read()
                    with warnings.catch_warnings():
                        warnings.simplefilter('ignore')
                        tree = _canon_control(_canon_all(_desugar_dict_builds(_strip_inert(ast.parse(src, filename=path)))))
                except (SyntaxError, UnicodeDecodeError, OSError) as e:
                    raise AnalysisError(f"cannot parse {rel}: {e}")
                h.update(rel.encode())
                h.update(src.encode())
                modname = rel[:-3].replace("/", ".")
                if modname.endswith(".__init__"):
                    modname = modname[: -len(".__init__")]
                m = Module(modname, path, rel, src, tree)
                self.modules[modname] = m
        self.digest = h.hexdigest()
        for m in self.modules.values():
            self._index_module(m)

    def _index_module(self, m: Module):
        is_pkg = m.path.endswith("__init__.py")
        for st in ast.walk(m.tree):
            # imports anywhere (function-local imports are used to avoid cycles)
            if isinstance(st, ast.Import):
                for a in st.names:
                    local = a.asname or a.name.split(".")[0]
                    target = a.name if a.asname else a.name.split(".")[0]
                    m.imports.setdefault(local, ("module", target))
            elif isinstance(st, ast.ImportFrom):
                base = st.module or ""
                if st.level:
                    pkg = m.name if is_pkg else m.name.rsplit(".", 1)[0]
                    for _ in range(st.level - 1):
                        pkg = pkg.rsplit(".", 1)[0]
                    base = pkg + ("." + base if base else "")
                for a in st.names:
                    m.imports.setdefault(a.asname or a.name, ("symbol", base, a.name))
        self._index_body(m, m.tree.body, None, None, m.name)

    def _index_body(self, m: Module, body, cls: Optional[ClassInfo], parent: Optional[FunctionInfo], prefix: str):
        for st in body:
            if isinstance(st, (ast.FunctionDef, ast.AsyncFunctionDef)):
                self._index_function(m, st, cls, parent, prefix)
            elif isinstance(st, ast.ClassDef):
                self._index_class(m, st, parent, prefix)
            elif isinstance(st, (ast.If, ast.Try, ast.With, ast.For, ast.While)):
                # definitions nested in module-level compound statements
                for sub in ("body", "orelse", "finalbody"):
                    self._index_body(m, getattr(st, sub, []) or [], cls, parent, prefix)
                for hnd in getattr(st, "handlers", []) or []:
                    self._index_body(m, hnd.body, cls, parent, prefix)
            elif parent is None:
                if isinstance(st, ast.Assign):
                    for t in st.targets:
                        if isinstance(t, ast.Name):
                            (cls.class_attrs.__setitem__(t.id, st.value) if cls is not None
                             else m.assigns.setdefault(t.id, []).append(st.value))
                elif isinstance(st, ast.AnnAssign) and isinstance(st.target, ast.Name):
                    if cls is not None:
                        cls.annotations[st.target.id] = st.annotation
                        if st.value is not None:
                            cls.class_attrs[st.target.id] = st.value
                    elif st.value is not None:
                        m.assigns.setdefault(st.target.id, []).append(st.value)

    def _index_function(self, m, node, cls, parent, prefix):
        q = f"{prefix}.{node.name}"
        fi = FunctionInfo(node.name, q, m, node, cls=cls, parent=parent,
                          decorators=[deco_name(d) for d in node.decorator_list])
        self.functions[q] = fi
        self.fn_of_node[id(node)] = fi
        if parent is not None:
            parent.nested[node.name] = fi
        elif cls is not None:
            cls.methods[node.name] = fi
        else:
            m.functions[node.name] = fi
        self._index_inner(m, fi, node.body, q + ".<locals>")
        # lambdas in decorators / defaults belong to the enclosing scope; ignore
        return fi

    def _index_inner(self, m: Module, fi: FunctionInfo, body, prefix):
        """nested defs, classes and lambdas directly inside fi (not inside deeper defs)."""
        counter = [0]

        def visit(node):
            for ch in ast.iter_child_nodes(node):
                if isinstance(ch, (ast.FunctionDef, ast.AsyncFunctionDef)):
                    self._index_function(m, ch, None, fi, prefix)
                    # decorators and defaults evaluated in the enclosing scope
                    for d in ch.decorator_list:
                        visit(d)
                    for d in ch.args.defaults + [x for x in ch.args.kw_defaults if x is not None]:
                        visit(d)
                elif isinstance(ch, ast.ClassDef):
                    ci = self._index_class(m, ch, fi, prefix)
                    fi.local_classes[ch.name] = ci
                elif isinstance(ch, ast.Lambda):
                    counter[0] += 1
                    q = f"{prefix}.<lambda#{counter[0]}@{ch.lineno}:{ch.col_offset}>"
                    li = FunctionInfo("<lambda>", q, m, ch, cls=None, parent=fi)
                    self.functions[q] = li
                    self.fn_of_node[id(ch)] = li
                    fi.lambdas.append(li)
                    self._index_inner(m, li, [ast.Expr(value=ch.body)], q + ".<locals>")
                    for d in ch.args.defaults + [x for x in ch.args.kw_defaults if x is not None]:
                        visit(d)
                else:
                    visit(ch)
        for st in body:
            if isinstance(st, (ast.FunctionDef, ast.AsyncFunctionDef)):
                self._index_function(m, st, None, fi, prefix)
                for d in st.decorator_list:
                    visit(d)
                for d in st.args.defaults + [x for x in st.args.kw_defaults if x is not None]:
                    visit(d)
            elif isinstance(st, ast.ClassDef):
                ci = self._index_class(m, st, fi, prefix)
                fi.local_classes[st.name] = ci
            else:
                visit(st)

    def _index_class(self, m, node: ast.ClassDef, parent_fn, prefix):
        q = f"{prefix}.{node.name}"
        ci = ClassInfo(node.name, q, m, node, base_exprs=list(node.bases), parent_fn=parent_fn)
        self.classes[q] = ci
        if parent_fn is None and prefix == m.name:
            m.classes[node.name] = ci
        # class body
        for st in node.body:
            if isinstance(st, (ast.FunctionDef, ast.AsyncFunctionDef)):
                fi = FunctionInfo(st.name, f"{q}.{st.name}", m, st, cls=ci, parent=None,
                                  decorators=[deco_name(d) for d in st.decorator_list])
                self.functions[fi.qualname] = fi
                self.fn_of_node[id(st)] = fi
                # property setters etc. keep first definition under the name
                ci.methods.setdefault(st.name, fi)
                self._index_inner(m, fi, st.body, fi.qualname + ".<locals>")
            elif isinstance(st, ast.Assign):
                for t in st.targets:
                    if isinstance(t, ast.Name):
                        ci.class_attrs[t.id] = st.value
            elif isinstance(st, ast.AnnAssign) and isinstance(st.target, ast.Name):
                ci.annotations[st.target.id] = st.annotation
                if st.value is not None:
                    ci.class_attrs[st.target.id] = st.value
        # module-level lambdas in class attrs are rare; skip
        return ci

    # ------------------------------------------------------------------ linking
    def resolve_symbol(self, modname: str, name: str, _seen=None):
        """Resolve `name` at module level of `modname` to ClassInfo | FunctionInfo | ('module', dotted)
        | ('global', Module, name) | ('external', dotted) | None."""
        _seen = _seen or set()
        if (modname, name) in _seen:
            return None
        _seen.add((modname, name))
        m = self.modules.get(modname)
        if m is None:
            return ("external", f"{modname}.{name}")
        if name in m.classes:
            return m.classes[name]
        if name in m.functions:
            return m.functions[name]
        if name in m.imports:
            imp = m.imports[name]
            if imp[0] == "module":
                return ("module", imp[1])
            _, base, sym = imp
            if base in self.modules:
                # symbol may itself be a submodule
                if f"{base}.{sym}" in self.modules and sym not in self.modules[base].classes \
                        and sym not in self.modules[base].functions and sym not in self.modules[base].assigns \
                        and sym not in self.modules[base].imports:
                    return ("module", f"{base}.{sym}")
                return self.resolve_symbol(base, sym, _seen)
            return ("external", f"{base}.{sym}")
        if name in m.assigns:
            return ("global", m, name)
        return None

    def _link(self):
        # resolve bases
        for ci in self.classes.values():
            for b in ci.base_exprs:
                ci.bases.append(self._resolve_base(ci, b))
        for ci in self.classes.values():
            ci.mro = self._c3(ci, ())
        for fi in self.functions.values():
            if fi.cls is not None and fi.parent is None:
                self._methods_by_name.setdefault(fi.name, []).append(fi)

    def _resolve_base(self, ci: ClassInfo, b: ast.expr):
        if isinstance(b, ast.Subscript):     # Generic[State, Action]
            b = b.value
        d = dotted(b)
        if d is None:
            ci.dynamic_base = True
            return "<dynamic>"
        head = d.split(".")[0]
        if ci.parent_fn is not None:
            # class defined in a function: a base may be a local class / parameter expression
            if head in ci.parent_fn.local_classes and "." not in d:
                return ci.parent_fn.local_classes[head]
            if head in ci.parent_fn.param_names:
                ci.dynamic_base = True
                return "<dynamic>"
        r = self.resolve_symbol(ci.module.name, head)
        if isinstance(r, ClassInfo) and "." not in d:
            return r
        if isinstance(r, tuple) and r[0] == "module" and "." in d:
            modname = r[1]
            rest = d.split(".")[1:]
            while len(rest) > 1 and f"{modname}.{rest[0]}" in self.modules:
                modname = f"{modname}.{rest[0]}"
                rest = rest[1:]
            r2 = self.resolve_symbol(modname, rest[0]) if len(rest) == 1 else None
            if isinstance(r2, ClassInfo):
                return r2
            return d.split(".")[-1]
        if isinstance(r, tuple) and r[0] == "external":
            return r[1].split(".")[-1]
        return d.split(".")[-1]

    def _c3(self, ci: ClassInfo, stack) -> List[object]:
        if ci in stack:
            return [ci]

        def same(a, b):
            return a is b or (isinstance(a, str) and isinstance(b, str) and a == b)

        seqs = []
        for b in ci.bases:
            if isinstance(b, ClassInfo):
                seqs.append(list(b.mro) if b.mro else self._c3(b, stack + (ci,)))
            else:
                seqs.append([b])
        seqs.append(list(ci.bases))
        res: List[object] = [ci]
        while True:
            seqs = [s for s in seqs if s]
            if not seqs:
                break
            cand = None
            for s in seqs:
                c = s[0]
                if not any(any(same(c, x) for x in t[1:]) for t in seqs):
                    cand = c
                    break
            fallback = cand is None
            if fallback:       # inconsistent hierarchy: take the first head and strip it everywhere
                cand = seqs[0][0]
            res.append(cand)
            seqs = [s[1:] if same(s[0], cand) else s for s in seqs]
            if fallback:
                seqs = [[x for x in s if not same(x, cand)] for s in seqs]
        return res

    # ------------------------------------------------------------------ queries
    def module_of(self, relpath: str) -> Module:
        for m in self.modules.values():
            if m.relpath == relpath:
                return m
        raise AnalysisError(f"anchor vanished: module {relpath}")

    def cls(self, qual_suffix: str) -> ClassInfo:
        hits = [c for q, c in self.classes.items() if q == qual_suffix or q.endswith("." + qual_suffix)]
        if len(hits) != 1:
            raise AnalysisError(f"anchor vanished or ambiguous: class {qual_suffix} ({len(hits)} matches)")
        return hits[0]

    def find_cls(self, qual_suffix: str) -> Optional[ClassInfo]:
        hits = [c for q, c in self.classes.items() if q == qual_suffix or q.endswith("." + qual_suffix)]
        return hits[0] if len(hits) == 1 else None

    def fn(self, qual_suffix: str) -> FunctionInfo:
        hits = [f for q, f in self.functions.items() if q == qual_suffix or q.endswith("." + qual_suffix)]
        if len(hits) != 1:
            raise AnalysisError(f"anchor vanished or ambiguous: function {qual_suffix} ({len(hits)} matches)")
        return hits[0]

    def find_fn(self, qual_suffix: str) -> Optional[FunctionInfo]:
        hits = [f for q, f in self.functions.items() if q == qual_suffix or q.endswith("." + qual_suffix)]
        return hits[0] if len(hits) == 1 else None

    def method(self, cls_suffix: str, name: str) -> FunctionInfo:
        """Public entry point lookup through the MRO (a vanished one is an analysis error)."""
        ci = self.cls(cls_suffix)
        owner, thing = ci.lookup(name)
        if not isinstance(thing, FunctionInfo):
            raise AnalysisError(f"anchor vanished: {cls_suffix}.{name}")
        return thing

    def methods_named(self, name: str) -> List[FunctionInfo]:
        return list(self._methods_by_name.get(name, []))

    def subclasses(self, ci: ClassInfo) -> List[ClassInfo]:
        return [c for c in self.classes.values() if c is not ci and ci in c.mro]

    def all_functions(self) -> Iterable[FunctionInfo]:
        return self.functions.values()

    def stats(self) -> dict:
        ncalls = 0
        for m in self.modules.values():
            ncalls += sum(isinstance(n, ast.Call) for n in ast.walk(m.tree))
        return {
            "modules": len(self.modules),
            "classes": len(self.classes),
            "functions": len(self.functions),
            "call_sites": ncalls,
            "excluded": self.excluded,
            "digest": self.digest[:16],
        }

    # ------------------------------------------------------------------ scope resolution
    def enclosing_functions(self, fi: FunctionInfo) -> List[FunctionInfo]:
        out = []
        p = fi.parent
        while p is not None:
            out.append(p)
            p = p.parent
        return out

    def resolve_global_name(self, fi: FunctionInfo, name: str):
        """Resolve a name that is not local to fi or its enclosing functions."""
        r = self.resolve_symbol(fi.module.name, name)
        if r is not None:
            return r
        if hasattr(builtins, name):
            return ("builtin", name)
        return None

    def external_name(self, fi: FunctionInfo, node: ast.expr) -> Optional[str]:
        """'np.linalg.solve' -> 'numpy.linalg.solve' when the head is an imported external module/symbol."""
        d = dotted(node)
        if d is None:
            return None
        parts = d.split(".")
        head = parts[0]
        r = self.resolve_symbol(fi.module.name, head)
        if isinstance(r, tuple) and r[0] == "module" and r[1].split(".")[0] != "msdm":
            return ".".join([r[1]] + parts[1:])
        if isinstance(r, tuple) and r[0] == "external":
            return ".".join([r[1]] + parts[1:])
        return None

"""Structural AST patterns with metavariables, so that rules do not depend on the names of local variables.

Pattern source is ordinary Python in which
    V_x      matches any Name (or self.attr chain) and binds its text to 'x' (consistent across the pattern / env)
    E_x      matches any expression and binds the node to 'x' (consistent by unparse-equality)
    ANY      matches any expression without binding
    REST     as the last element of a statement list / argument list matches the remaining elements
Everything else must match structurally (ctx ignored).  Add/Mult/And/Or/==/!= operands may match in either order.
Call keywords are matched by name, order-insensitive; a pattern keyword `REST=ANY` allows extra keywords.
"""
from __future__ import annotations

import ast
from typing import Dict, Iterable, List, Optional, Tuple

Env = Dict[str, object]


def _txt(n: ast.AST) -> str:
    return " ".join(ast.unparse(n).split())


def _is_mv(node: ast.AST, prefix: str) -> Optional[str]:
    if isinstance(node, ast.Name) and node.id.startswith(prefix) and len(node.id) > len(prefix):
        return node.id[len(prefix):]
    return None


COMMUTATIVE_BIN = (ast.Add, ast.Mult, ast.BitAnd, ast.BitOr)
COMMUTATIVE_CMP = (ast.Eq, ast.NotEq)
FLIPPED = {ast.Lt: ast.Gt, ast.Gt: ast.Lt, ast.LtE: ast.GtE, ast.GtE: ast.LtE}

# Definitions of single-assignment locals of the function being matched (set by Snips around a query): a pattern that expects
# a compound expression also matches a local name whose only definition is that expression (temporaries are transparent).
_DEFS: Dict[str, ast.AST] = {}


class Virtual:
    """binding of a V_ metavariable to an expression occurrence instead of a name: the statement `V_t = <expr>` was matched
    'virtually' because the code uses <expr> in place without naming it."""

    def __init__(self, node):
        self.node = node
        self.text = _txt(node)

    def __eq__(self, other):
        return isinstance(other, Virtual) and other.text == self.text

    def __hash__(self):
        return hash(self.text)

    def __str__(self):
        return self.text


def match(p: ast.AST, n: ast.AST, env: Env) -> Optional[Env]:
    """match pattern node p against node n under bindings env; returns the extended env or None."""
    if isinstance(p, ast.Name):
        if p.id == "ANY":
            return env
        v = _is_mv(p, "V_")
        if v is not None:
            if v in env and isinstance(env[v], Virtual):
                return env if _txt(n) == env[v].text else None
            if not isinstance(n, (ast.Name, ast.Attribute)):
                return None
            if isinstance(n, ast.Attribute) and ast.unparse(n).count("(") > 0:
                return None
            t = _txt(n)
            if v in env:
                return env if env[v] == t else None
            e2 = dict(env)
            e2[v] = t
            return e2
        e = _is_mv(p, "E_")
        if e is not None:
            if e in env:
                cur = env[e]
                return env if (_txt(cur) if isinstance(cur, ast.AST) else cur) == _txt(n) else None
            e2 = dict(env)
            e2[e] = n
            return e2
        return env if isinstance(n, ast.Name) and n.id == p.id else None
    if isinstance(p, ast.Expr) and not isinstance(n, ast.Expr):
        return None
    if type(p) is not type(n):
        if isinstance(n, ast.Name) and isinstance(p, ast.expr) and n.id in _DEFS and isinstance(getattr(n, "ctx", None), ast.Load):
            d = _DEFS[n.id]
            if d is not n and not any(x is n for x in ast.walk(d)):
                return match(p, d, env)
        return None
    if isinstance(p, ast.Constant):
        return env if p.value == n.value and type(p.value) is type(n.value) or (isinstance(p.value, (int, float)) and isinstance(n.value, (int, float))
                                                                                and not isinstance(p.value, bool) and not isinstance(n.value, bool) and p.value == n.value) else None
    if isinstance(p, ast.BinOp) and type(p.op) is type(n.op) and isinstance(p.op, COMMUTATIVE_BIN):
        for a, b in ((n.left, n.right), (n.right, n.left)):
            e1 = match(p.left, a, env)
            if e1 is not None:
                e2 = match(p.right, b, e1)
                if e2 is not None:
                    return e2
        return None
    if isinstance(p, ast.BoolOp) and type(p.op) is type(n.op) and len(p.values) == len(n.values) == 2:
        for a, b in ((n.values[0], n.values[1]), (n.values[1], n.values[0])):
            e1 = match(p.values[0], a, env)
            if e1 is not None:
                e2 = match(p.values[1], b, e1)
                if e2 is not None:
                    return e2
        return None
    if isinstance(p, ast.Compare) and isinstance(n, ast.Compare) and len(p.ops) == len(n.ops) == 1 and type(p.ops[0]) in FLIPPED \
            and FLIPPED[type(p.ops[0])] is type(n.ops[0]):
        e1 = match(p.left, n.comparators[0], env)           # a < b  matches  b > a
        if e1 is not None:
            e2 = match(p.comparators[0], n.left, e1)
            if e2 is not None:
                return e2
        return None
    if isinstance(p, ast.Compare) and len(p.ops) == len(n.ops) == 1 and type(p.ops[0]) is type(n.ops[0]) and isinstance(p.ops[0], COMMUTATIVE_CMP):
        for a, b in ((n.left, n.comparators[0]), (n.comparators[0], n.left)):
            e1 = match(p.left, a, env)
            if e1 is not None:
                e2 = match(p.comparators[0], b, e1)
                if e2 is not None:
                    return e2
        return None
    if isinstance(p, ast.Call):
        e1 = match(p.func, n.func, env)
        if e1 is None:
            return None
        from .util import call_params
        ps = call_params(n)
        if ps is not None and not any(isinstance(a, ast.Starred) for a in list(p.args) + list(n.args)):
            # the callee's signature is known: arguments are compared by parameter, positional and keyword spelling alike
            def bind(c):
                d, rest = {}, False
                args = list(c.args)
                if args and _is_rest(args[-1]):
                    args, rest = args[:-1], True
                for i, a in enumerate(args):
                    d[ps[i] if i < len(ps) else f"#{i}"] = a
                for k in c.keywords:
                    if k.arg == "REST":
                        rest = True
                    elif k.arg:
                        d[k.arg] = k.value
                return d, rest
            pd, rest = bind(p)
            nd, _ = bind(n)
            if (not rest and set(pd) != set(nd)) or (rest and not set(pd) <= set(nd)):
                return None
            for k in pd:
                e1 = match(pd[k], nd[k], e1)
                if e1 is None:
                    return None
            return e1
        e1 = _match_list(p.args, n.args, e1)
        if e1 is None:
            return None
        pk = {k.arg: k.value for k in p.keywords}
        nk = {k.arg: k.value for k in n.keywords}
        rest = "REST" in pk
        pk.pop("REST", None)
        if (not rest and set(pk) != set(nk)) or (rest and not set(pk) <= set(nk)):
            return None
        for k, v in pk.items():
            e1 = match(v, nk[k], e1)
            if e1 is None:
                return None
        return e1
    if isinstance(p, ast.arg):
        if p.arg.startswith("V_"):
            v = p.arg[2:]
            if v in env:
                return env if env[v] == n.arg else None
            e2 = dict(env)
            e2[v] = n.arg
            return e2
        return env          # other parameter names are not compared
    for fld, pv in ast.iter_fields(p):
        if fld in ("ctx", "lineno", "col_offset", "end_lineno", "end_col_offset", "type_comment", "kind"):
            continue
        nv = getattr(n, fld, None)
        if isinstance(pv, list):
            if not isinstance(nv, list):
                return None
            env2 = _match_list(pv, nv, env)
            if env2 is None:
                return None
            env = env2
        elif isinstance(pv, ast.AST):
            if not isinstance(nv, ast.AST):
                return None
            env2 = match(pv, nv, env)
            if env2 is None:
                return None
            env = env2
        else:
            if pv != nv:
                return None
    return env


def _is_rest(x) -> bool:
    if isinstance(x, ast.Expr):
        x = x.value
    return isinstance(x, ast.Name) and x.id == "REST"


def _match_list(ps: list, ns: list, env: Env) -> Optional[Env]:
    if ps and _is_rest(ps[-1]):
        ps = ps[:-1]
        if len(ns) < len(ps):
            return None
        ns = ns[:len(ps)]
    elif len(ps) != len(ns):
        return None
    for a, b in zip(ps, ns):
        if not isinstance(a, ast.AST) or not isinstance(b, ast.AST):
            if a != b:
                return None
            continue
        env = match(a, b, env)
        if env is None:
            return None
    return env


_CACHE: Dict[Tuple[str, str], ast.AST] = {}


def compile_pat(src: str, mode: str = "auto") -> ast.AST:
    k = (src, mode)
    if k in _CACHE:
        return _CACHE[k]
    from .canon import canon
    tree = canon(ast.parse(src.strip()), statements=False)
    node: ast.AST
    if len(tree.body) == 1:
        node = tree.body[0]
        if isinstance(node, ast.Expr) and mode in ("auto", "expr"):
            node = node.value
    else:
        node = tree
    _CACHE[k] = node
    return node


_FN_DEFS: Dict[int, Tuple[ast.AST, Dict[str, ast.AST]]] = {}


def fn_defs(fn: ast.AST) -> Dict[str, ast.AST]:
    """single-assignment locals of a function node -> their defining expression (parameters excluded)."""
    c = _FN_DEFS.get(id(fn))
    if c is not None and c[0] is fn:
        return c[1]
    stores: Dict[str, int] = {}
    vals: Dict[str, ast.AST] = {}
    a = fn.args
    pn = {x.arg for x in a.posonlyargs + a.args + a.kwonlyargs} | ({a.vararg.arg} if a.vararg else set()) | ({a.kwarg.arg} if a.kwarg else set())
    for x in ast.walk(fn):
        if isinstance(x, ast.Name) and isinstance(x.ctx, (ast.Store, ast.Del)):
            stores[x.id] = stores.get(x.id, 0) + 1
        elif isinstance(x, ast.Assign) and len(x.targets) == 1 and isinstance(x.targets[0], ast.Name):
            vals[x.targets[0].id] = x.value
        elif isinstance(x, ast.AugAssign) and isinstance(x.target, ast.Name):
            stores[x.target.id] = stores.get(x.target.id, 0) + 1
    d = {k: v for k, v in vals.items() if stores.get(k) == 1 and k not in pn}
    _FN_DEFS[id(fn)] = (fn, d)
    return d


def m(src: str, node: ast.AST, env: Optional[Env] = None, fn: Optional[ast.AST] = None) -> Optional[Env]:
    """match a pattern (source text) against one node; with `fn` (the enclosing function node) temporaries are transparent."""
    if node is None:
        return None
    global _DEFS
    saved = _DEFS
    if fn is not None:
        _DEFS = fn_defs(fn)
    try:
        return match(compile_pat(src), node, dict(env or {}))
    finally:
        _DEFS = saved


def find(root, src: str, env: Optional[Env] = None, nodes: Optional[Iterable[ast.AST]] = None) -> List[Tuple[ast.AST, Env]]:
    """all nodes under `root` (an AST node, or an iterable of nodes) that match the pattern."""
    p = compile_pat(src)
    out = []
    it = nodes if nodes is not None else ast.walk(root)
    global _DEFS
    saved = _DEFS
    if isinstance(root, (ast.FunctionDef, ast.AsyncFunctionDef)):
        _DEFS = fn_defs(root)       # temporaries of the function are transparent
    try:
        for n in it:
            if isinstance(p, ast.stmt) != isinstance(n, ast.stmt) and not isinstance(p, ast.Module):
                continue
            e = match(p, n, dict(env or {}))
            if e is not None:
                out.append((n, e))
    finally:
        _DEFS = saved
    return out


def first(root, src: str, env: Optional[Env] = None, nodes=None) -> Tuple[Optional[ast.AST], Optional[Env]]:
    r = find(root, src, env, nodes)
    r.sort(key=lambda x: (getattr(x[0], "lineno", 0), getattr(x[0], "col_offset", 0)))
    return r[0] if r else (None, None)


def txt(x) -> str:
    return _txt(x) if isinstance(x, ast.AST) else str(x)


# ------------------------------------------------------------------------------------------------------------------
# Snippets: patterns written with the *current* local names of the code; every bare name that is neither a parameter of
# the analysed function, nor a module-level name of its module, nor a builtin, is turned into a V_ metavariable, so the
# rule states the structure and not the spelling of locals, comprehension variables, lambda / nested-def parameters.
import builtins as _bi

_BUILTINS = set(dir(_bi))


def _module_names(mod) -> set:
    return set(mod.imports) | set(mod.classes) | set(mod.functions) | set(mod.assigns)


class _Conv(ast.NodeTransformer):
    def __init__(self, literals):
        self.lit = literals

    def visit_Name(self, node):
        i = node.id
        if i in self.lit or i in ("ANY", "REST") or i.startswith(("V_", "E_")):
            return node
        return ast.copy_location(ast.Name(id="V_" + i, ctx=node.ctx), node)

    def visit_arg(self, node):
        if node.arg in ("self", "cls") or node.arg.startswith("V_"):
            return node
        return ast.copy_location(ast.arg(arg="V_" + node.arg, annotation=None), node)


class Snips:
    """pattern queries over one function; see the note above."""

    def __init__(self, fi, literals: Iterable[str] = (), root: Optional[ast.AST] = None):
        self.fi = fi
        top = fi
        while getattr(top, "parent", None) is not None:
            top = top.parent
        pn = set()
        a = top.node.args
        for x in a.posonlyargs + a.args + a.kwonlyargs:
            pn.add(x.arg)
        if a.vararg:
            pn.add(a.vararg.arg)
        if a.kwarg:
            pn.add(a.kwarg.arg)
        self.literals = pn | {"self", "cls"} | _module_names(fi.module) | _BUILTINS | set(literals)
        self.root = root if root is not None else fi.node
        self._nodes = list(ast.walk(self.root))
        self.stmts = [n for n in self._nodes if isinstance(n, ast.stmt)]
        self.exprs = [n for n in self._nodes if isinstance(n, ast.expr)]
        self._pc: Dict[str, ast.AST] = {}
        # single-assignment locals (one store in the whole outermost function, by a plain assignment)
        stores: Dict[str, int] = {}
        vals: Dict[str, ast.AST] = {}
        for x in ast.walk(top.node):
            if isinstance(x, ast.Name) and isinstance(x.ctx, (ast.Store, ast.Del)):
                stores[x.id] = stores.get(x.id, 0) + 1
            elif isinstance(x, ast.Assign) and len(x.targets) == 1 and isinstance(x.targets[0], ast.Name):
                vals[x.targets[0].id] = x.value
            elif isinstance(x, (ast.AugAssign,)) and isinstance(x.target, ast.Name):
                stores[x.target.id] = stores.get(x.target.id, 0) + 1
        self.defs = {k: v for k, v in vals.items() if stores.get(k) == 1 and k not in pn}

    def conv(self, src: str) -> ast.AST:
        if src not in self._pc:
            from .canon import canon
            tree = canon(ast.parse(src.strip()), statements=False)
            tree = _Conv(self.literals).visit(tree)
            node: ast.AST = tree.body[0] if len(tree.body) == 1 else tree
            if isinstance(node, ast.Expr):
                node = node.value
            self._pc[src] = node
        return self._pc[src]

    def find(self, src: str, env: Optional[Env] = None, within: Optional[ast.AST] = None) -> List[Tuple[ast.AST, Env]]:
        p = self.conv(src)
        if within is not None:
            pool = [n for n in ast.walk(within) if isinstance(n, ast.stmt if isinstance(p, ast.stmt) else ast.expr)]
        else:
            pool = self.stmts if isinstance(p, ast.stmt) else self.exprs
        out = []
        global _DEFS
        saved, _DEFS = _DEFS, self.defs
        try:
            for n in pool:
                e = match(p, n, dict(env or {}))
                if e is not None:
                    out.append((n, e))
            # `V_t = <expr>` is also satisfied by an occurrence of <expr> that the code did not name
            if not out and isinstance(p, ast.Assign) and len(p.targets) == 1 and _is_mv(p.targets[0], "V_") and not _is_mv(p.value, "E_") \
                    and not (isinstance(p.value, ast.Name)):
                tv = _is_mv(p.targets[0], "V_")
                if tv not in (env or {}):
                    epool = [n for n in (ast.walk(within) if within is not None else self.exprs) if isinstance(n, ast.expr)]
                    for n in epool:
                        if isinstance(n, ast.Name):
                            continue
                        e = match(p.value, n, dict(env or {}))
                        if e is not None:
                            e = dict(e)
                            e[tv] = Virtual(n)
                            out.append((n, e))
        finally:
            _DEFS = saved
        out.sort(key=lambda x: (getattr(x[0], "lineno", 0), getattr(x[0], "col_offset", 0)))
        return out

    def first(self, src: str, env: Optional[Env] = None, within: Optional[ast.AST] = None) -> Tuple[Optional[ast.AST], Optional[Env]]:
        r = self.find(src, env, within)
        return r[0] if r else (None, None)

    def has(self, src: str, env: Optional[Env] = None, within: Optional[ast.AST] = None) -> bool:
        return bool(self.find(src, env, within))

    def solve(self, pats: List[str], env: Optional[Env] = None, within: Optional[ast.AST] = None) -> Optional[Tuple[Env, List[ast.AST]]]:
        """a consistent assignment of all patterns (backtracking); None when there is none."""
        def rec(i, e, acc):
            if i == len(pats):
                return e, acc
            for n, e2 in self.find(pats[i], e, within):
                r = rec(i + 1, e2, acc + [n])
                if r is not None:
                    return r
            return None
        return rec(0, dict(env or {}), [])

    def m(self, src: str, node: ast.AST, env: Optional[Env] = None) -> Optional[Env]:
        if node is None:
            return None
        global _DEFS
        saved, _DEFS = _DEFS, self.defs
        try:
            return match(self.conv(src), node, dict(env or {}))
        finally:
            _DEFS = saved

"""Self-test of the checker on in-memory variants of the *current* tree (parsed, never run):
mutants (one clause broken; must be reported under the named rule) and benign twins
(behaviour-preserving rewrites; must stay silent).  A mutant whose anchor text is no longer
present is skipped and counted, never failed."""
from __future__ import annotations

import glob
import json
import os
import subprocess
import tempfile
import shutil
from concurrent.futures import ProcessPoolExecutor
from typing import Dict, List, Optional, Tuple

from .model import AnalysisError
from .report import VERIF, load_known


def _variants(prop: str):
    from .variants import MUTANTS, TWINS
    return MUTANTS.get(prop, []), TWINS.get(prop, [])


def _apply(repo: str, edits: List[Tuple[str, str, str]]) -> Optional[Dict[str, str]]:
    out: Dict[str, str] = {}
    for rel, old, new in edits:
        path = os.path.join(repo, rel)
        if not os.path.exists(path):
            return None
        src = out.get(rel) or open(path, encoding="utf-8").read()
        if src.count(old) != 1:
            return None
        out[rel] = src.replace(old, new)
    return out


def _seeded_overrides(repo: str, patch_path: str) -> Optional[Dict[str, str]]:
    """apply a unified diff to a scratch copy of the touched files (outside /repo and /verif)."""
    txt = open(patch_path).read()
    files = []
    for line in txt.splitlines():
        if line.startswith("+++ b/"):
            files.append(line[6:].strip())
    if not files:
        return None
    td = tempfile.mkdtemp(prefix="msdmlint-seed-")
    try:
        for rel in files:
            src = os.path.join(repo, rel)
            if not os.path.exists(src):
                return None
            os.makedirs(os.path.dirname(os.path.join(td, rel)), exist_ok=True)
            shutil.copy(src, os.path.join(td, rel))
        r = subprocess.run(["patch", "-p1", "-s", "-f", "--no-backup-if-mismatch", "-d", td, "-i", os.path.abspath(patch_path)],
                           stdout=subprocess.PIPE, stderr=subprocess.STDOUT, text=True)
        if r.returncode != 0:
            return None
        return {rel: open(os.path.join(td, rel), encoding="utf-8").read() for rel in files}
    finally:
        shutil.rmtree(td, ignore_errors=True)


def _run_one(args):
    prop, repo, name, overrides, expect_rules, kind = args
    from .cli import run_property
    known = {k["key"] for k in load_known().get("known", []) if k.get("property") == prop}
    try:
        ctx, _ = run_property(prop, repo, "quick", overrides)
    except AnalysisError as e:
        return dict(name=name, kind=kind, outcome="analysis-error", detail=str(e)[:200])
    except Exception as e:  # a crash of the analyser on a variant is a broken checker
        return dict(name=name, kind=kind, outcome="crash", detail=f"{type(e).__name__}: {e}"[:200])
    viols = [o for o in ctx.obs if o.verdict == "VIOLATION" and o.key(prop) not in known]
    rules = sorted({o.rule for o in viols})
    if kind == "twin":
        return dict(name=name, kind=kind, outcome="silent" if not viols else "alarm", rules=rules,
                    detail="; ".join(f"{o.rule} {o.function} {o.instance}" for o in viols[:3]))
    hit = [o for o in viols if (not expect_rules or o.rule in expect_rules)]
    return dict(name=name, kind=kind, outcome="killed" if hit else ("other-rule" if viols else "missed"), rules=rules,
                detail="; ".join(f"{o.rule} {o.function} {o.instance}" for o in (hit or viols)[:2]))


def run_for(prop: str, repo: str, skip: bool = False, jobs: int = 16) -> dict:
    muts, twins = _variants(prop)
    res = dict(mutants=0, killed=0, skipped=0, twins=0, twins_silent=0, missed=[], broken=[], details=[])
    if skip:
        res["note"] = "self-test skipped: the base run already reports a violation"
        return res
    tasks = []
    for m in muts:
        ov = _apply(repo, m["edits"])
        if ov is None:
            res["skipped"] += 1
            res["details"].append(dict(name=m["name"], kind="mutant", outcome="skipped (anchor text not present)"))
            continue
        tasks.append((prop, repo, m["name"], ov, m.get("rules"), "mutant"))
    for t in twins:
        ov = _apply(repo, t["edits"])
        if ov is None:
            res["skipped"] += 1
            res["details"].append(dict(name=t["name"], kind="twin", outcome="skipped (anchor text not present)"))
            continue
        tasks.append((prop, repo, t["name"], ov, None, "twin"))
    # seeded defects contributed by independent agents
    for meta_path in sorted(glob.glob(os.path.join(VERIF, "seeded", "*", "meta.json"))):
        meta = json.load(open(meta_path))
        if (meta.get("detected_under_property") or meta.get("property")) != prop or not meta.get("expected_detected", False):
            continue
        ov = _seeded_overrides(repo, os.path.join(os.path.dirname(meta_path), "patch.diff"))
        name = "seeded/" + os.path.basename(os.path.dirname(meta_path))
        if ov is None:
            res["skipped"] += 1
            res["details"].append(dict(name=name, kind="mutant", outcome="skipped (patch does not apply)"))
            continue
        tasks.append((prop, repo, name, ov, meta.get("expected_rules"), "mutant"))
    if tasks:
        with ProcessPoolExecutor(max_workers=min(jobs, len(tasks))) as ex:
            outs = list(ex.map(_run_one, tasks))
    else:
        outs = []
    for o in outs:
        res["details"].append(o)
        if o["kind"] == "mutant":
            res["mutants"] += 1
            if o["outcome"] == "killed":
                res["killed"] += 1
            else:
                res["missed"].append(o["name"])
                res["broken"].append(f"mutant {o['name']} not reported under the expected rule: {o['outcome']} {o.get('detail', '')}")
        else:
            res["twins"] += 1
            if o["outcome"] == "silent":
                res["twins_silent"] += 1
            else:
                res["broken"].append(f"benign twin {o['name']} raised {o['outcome']}: {o.get('detail', '')}")
    return res

"""Small AST helpers shared by the rules."""
from __future__ import annotations

import ast
from typing import Dict, Iterable, List, Optional

from .model import FunctionInfo


def norm(node: ast.AST, maxlen: int = 90) -> str:
    """normalised source text of a construct (no positions) used in finding keys."""
    try:
        s = ast.unparse(node)
    except Exception:
        s = type(node).__name__
    s = " ".join(s.split())
    return s if len(s) <= maxlen else s[: maxlen - 3] + "..."


_PARENTS: Dict[int, Dict[int, ast.AST]] = {}


def parents(fi: FunctionInfo) -> Dict[int, ast.AST]:
    m = _PARENTS.get(id(fi.node))
    if m is None:
        m = {}
        for p in ast.walk(fi.node):
            for ch in ast.iter_child_nodes(p):
                m[id(ch)] = p
        _PARENTS[id(fi.node)] = m
    return m


def ancestors(fi: FunctionInfo, node: ast.AST) -> Iterable[ast.AST]:
    m = parents(fi)
    cur = m.get(id(node))
    while cur is not None:
        yield cur
        cur = m.get(id(cur))


def walk_local(node: ast.AST) -> Iterable[ast.AST]:
    """walk without entering nested function / lambda / class bodies (the root itself is entered)."""
    stack = list(ast.iter_child_nodes(node))
    yield node
    while stack:
        n = stack.pop()
        yield n
        if isinstance(n, (ast.FunctionDef, ast.AsyncFunctionDef, ast.Lambda, ast.ClassDef)):
            continue
        stack.extend(ast.iter_child_nodes(n))


def fn_body_nodes(fi: FunctionInfo) -> Iterable[ast.AST]:
    """all AST nodes evaluated as part of fi's own body (not nested scopes)."""
    if fi.is_lambda:
        yield from walk_local(fi.node.body)
        return
    for st in fi.node.body:
        if isinstance(st, (ast.FunctionDef, ast.AsyncFunctionDef, ast.ClassDef)):
            yield st                      # a nested definition is its own scope
            for d in getattr(st, "decorator_list", []):
                yield from walk_local(d)
            continue
        yield from walk_local(st)


def is_none(node: ast.AST) -> bool:
    return isinstance(node, ast.Constant) and node.value is None


def is_none_test(test: ast.AST):
    """`X is None` -> (X, True); `X is not None` -> (X, False); else None."""
    if isinstance(test, ast.Compare) and len(test.ops) == 1 and is_none(test.comparators[0]):
        if isinstance(test.ops[0], ast.Is):
            return test.left, True
        if isinstance(test.ops[0], ast.IsNot):
            return test.left, False
    return None


def call_name(call: ast.Call) -> Optional[str]:
    f = call.func
    if isinstance(f, ast.Name):
        return f.id
    if isinstance(f, ast.Attribute):
        return f.attr
    return None


# call node id -> (call node, positional parameter names of the resolved repository callee); filled by callgraph.register_call_signatures
CALL_PARAMS: dict = {}


def call_params(call: ast.Call):
    r = CALL_PARAMS.get(id(call))
    return r[1] if r is not None and r[0] is call else None


def kwarg(call: ast.Call, name: str) -> Optional[ast.AST]:
    """the argument passed for parameter `name`: by keyword, or — when the callee's signature is known — positionally."""
    for kw in call.keywords:
        if kw.arg == name:
            return kw.value
    ps = call_params(call)
    if ps is not None and name in ps and ps.index(name) < len(call.args):
        return call.args[ps.index(name)]
    return None


def posarg(call: ast.Call, i: int) -> Optional[ast.AST]:
    """the argument for the i-th positional parameter: positionally, or — when the callee's signature is known — by its keyword."""
    if i < len(call.args):
        return None if isinstance(call.args[i], ast.Starred) else call.args[i]
    ps = call_params(call)
    if ps is not None and i < len(ps):
        for kw in call.keywords:
            if kw.arg == ps[i]:
                return kw.value
    return None


def bound_args(call: ast.Call):
    """{parameter name: argument} for a call with a known signature (positional and keyword arguments alike); None otherwise."""
    ps = call_params(call)
    if ps is None:
        return None
    out = {}
    for i, a in enumerate(call.args):
        out[ps[i] if i < len(ps) else f"#{i}"] = a
    for kw in call.keywords:
        if kw.arg:
            out[kw.arg] = kw.value
    return out


def call_arg_texts(call: ast.Call, n: Optional[int] = None):
    """source texts of the first n (default: all supplied) arguments in parameter order, whichever way they were passed."""
    ps = call_params(call)
    if ps is None:
        return [" ".join(ast.unparse(a).split()) for a in call.args]
    b = bound_args(call)
    out = []
    for p_ in ps:
        if p_ in b:
            out.append(" ".join(ast.unparse(b[p_]).split()))
        else:
            break
    return out if n is None else out[:n]


def const_str(node: ast.AST) -> Optional[str]:
    if isinstance(node, ast.Constant) and isinstance(node.value, str):
        return node.value
    return None


def lexical_guards(fi: FunctionInfo, node: ast.AST):
    """(test, 'T' | 'F') of the if / while statements that lexically enclose `node` inside fi (innermost first)."""
    out = []
    prev = node

    def exits(body):
        return bool(body) and isinstance(body[-1], (ast.Continue, ast.Return, ast.Break, ast.Raise))
    for anc in ancestors(fi, node):
        # an earlier sibling `if C: ...; continue/return/break/raise` (no else) in the same block: C is false from there on
        for fld in ("body", "orelse", "finalbody"):
            blk = getattr(anc, fld, None)
            if isinstance(blk, list) and any(prev is x for x in blk):
                for st in blk:
                    if st is prev:
                        break
                    if isinstance(st, ast.If) and not st.orelse and exits(st.body):
                        out.append((st.test, "F"))
        if isinstance(anc, (ast.FunctionDef, ast.AsyncFunctionDef, ast.Lambda)):
            break
        if isinstance(anc, ast.If):
            if any(prev is x for x in anc.body):
                out.append((anc.test, "T"))
            elif any(prev is x for x in anc.orelse):
                out.append((anc.test, "F"))
        elif isinstance(anc, ast.While) and any(prev is x for x in anc.body):
            out.append((anc.test, "T"))
        prev = anc
    return out


_FLIP = {ast.Lt: ast.Gt, ast.Gt: ast.Lt, ast.LtE: ast.GtE, ast.GtE: ast.LtE, ast.Eq: ast.Eq, ast.NotEq: ast.NotEq}


def mirror_texts(node: ast.AST):
    """the source text of a comparison and of its mirrored spelling (a < b / b > a); a one-element set for anything else."""
    out = {" ".join(ast.unparse(node).split())}
    if isinstance(node, ast.Compare) and len(node.ops) == 1 and type(node.ops[0]) in _FLIP:
        m = ast.Compare(left=node.comparators[0], ops=[_FLIP[type(node.ops[0])]()], comparators=[node.left])
        out.add(" ".join(ast.unparse(m).split()))
    return out


def atomic_facts(guards):
    """decompose path conditions [(test ast, 'T'|'F'), ...] into atomic (text, bool) facts:
    (A or B) false => A false, B false;  (A and B) true => A true, B true;  not A flips."""
    out = set()

    def add(t, truth):
        if isinstance(t, ast.UnaryOp) and isinstance(t.op, ast.Not):
            add(t.operand, not truth)
        elif isinstance(t, ast.BoolOp) and isinstance(t.op, ast.Or) and not truth:
            for v in t.values:
                add(v, False)
        elif isinstance(t, ast.BoolOp) and isinstance(t.op, ast.And) and truth:
            for v in t.values:
                add(v, True)
        elif isinstance(t, ast.Compare) and len(t.ops) == 1 and isinstance(t.ops[0], (ast.NotEq, ast.NotIn, ast.IsNot)):
            pos = {ast.NotEq: ast.Eq, ast.NotIn: ast.In, ast.IsNot: ast.Is}[type(t.ops[0])]()
            add(ast.Compare(left=t.left, ops=[pos], comparators=t.comparators), not truth)
        else:
            out.add((" ".join(ast.unparse(t).split()), truth))
            if isinstance(t, ast.Compare) and len(t.ops) == 1 and type(t.ops[0]) in _FLIP:      # the mirrored spelling is the same fact
                m = ast.Compare(left=t.comparators[0], ops=[_FLIP[type(t.ops[0])]()], comparators=[t.left])
                out.add((" ".join(ast.unparse(m).split()), truth))
    for t, lab in guards:
        add(t, lab.startswith("T"))
    return out


def name_free(fi, node: ast.AST, depth: int = 2, width: int = 90) -> str:
    """source text of `node` in which every local variable of `fi` is replaced by the expression of its only assignment
    (up to `depth` levels) or by `_` — used for instance strings, which are part of obligation keys and must not depend on
    the spelling of locals.  Parameters, attributes, module-level names and builtins are kept."""
    import builtins as _b
    import copy
    top = fi
    while getattr(top, "parent", None) is not None:
        top = top.parent
    a = top.node.args
    keep = {x.arg for x in a.posonlyargs + a.args + a.kwonlyargs} | {"self", "cls"}
    if a.vararg:
        keep.add(a.vararg.arg)
    if a.kwarg:
        keep.add(a.kwarg.arg)
    mod = fi.module
    keep |= set(mod.imports) | set(mod.classes) | set(mod.functions) | set(mod.assigns) | set(dir(_b))
    defs: dict = {}
    for n in ast.walk(top.node):
        if isinstance(n, ast.Assign):
            for t in n.targets:
                if isinstance(t, ast.Name):
                    defs.setdefault(t.id, []).append(n.value)
        elif isinstance(n, ast.Name) and isinstance(n.ctx, (ast.Store, ast.Del)):
            defs.setdefault(n.id, [])
    for k in list(defs):
        stores = sum(1 for n in ast.walk(top.node) if isinstance(n, ast.Name) and n.id == k and isinstance(n.ctx, (ast.Store, ast.Del)))
        if stores != 1 or len(defs[k]) != 1:
            defs[k] = []

    class R(ast.NodeTransformer):
        def __init__(self, d):
            self.d = d

        def visit_Name(self, n):
            if n.id in keep and n.id not in defs:
                return n
            vs = defs.get(n.id)
            if vs and self.d > 0:
                return R(self.d - 1).visit(copy.deepcopy(vs[0]))
            return ast.Name(id="_", ctx=ast.Load())

        def visit_arg(self, n):
            return ast.arg(arg="_", annotation=None)

        def visit_Compare(self, n):
            self.generic_visit(n)
            if len(n.ops) == 1 and type(n.ops[0]) in _FLIP and isinstance(n.left, ast.Constant) and not isinstance(n.comparators[0], ast.Constant):
                return ast.Compare(left=n.comparators[0], ops=[_FLIP[type(n.ops[0])]()], comparators=[n.left])      # constants to the right
            return n
    out = R(depth).visit(copy.deepcopy(node))
    s = " ".join(ast.unparse(ast.fix_missing_locations(out)).split())
    return s if len(s) <= width else s[: width - 3] + "..."


def effective(body):
    """the statements of a block without the ones that cannot matter to a rule about what is computed: `pass`, docstrings and
    other constant expression statements, and calls to logger.* / logging.* / print / warnings.warn used as statements."""
    out = []
    for st in body:
        if isinstance(st, ast.Pass):
            continue
        if isinstance(st, ast.Expr) and isinstance(st.value, ast.Constant):
            continue
        if isinstance(st, ast.Expr) and isinstance(st.value, ast.Call):
            f = " ".join(ast.unparse(st.value.func).split())
            if f in ("print", "warnings.warn") or f.split(".")[0] in ("logger", "logging", "log"):
                continue
        out.append(st)
    return out


_OPTXT = {ast.Lt: "<", ast.Gt: ">", ast.LtE: "<=", ast.GtE: ">=", ast.Eq: "==", ast.NotEq: "!=", ast.In: "in", ast.NotIn: "not in", ast.Is: "is", ast.IsNot: "is not"}


def cmp_views(t: ast.AST):
    """{(left text, operator, right text)} of a single-operator comparison, in both spellings where the operator can be mirrored."""
    out = set()
    if isinstance(t, ast.Compare) and len(t.ops) == 1:
        l, r = " ".join(ast.unparse(t.left).split()), " ".join(ast.unparse(t.comparators[0]).split())
        op = type(t.ops[0])
        out.add((l, _OPTXT.get(op, "?"), r))
        if op in _FLIP:
            out.add((r, _OPTXT[_FLIP[op]], l))
    return out


def has_cmp(root: ast.AST, left: str, op: str, right: str) -> bool:
    """some comparison under `root` reads  left op right  (in either spelling)."""
    return any((left, op, right) in cmp_views(n) for n in ast.walk(root) if isinstance(n, ast.Compare))


def zero_test(test: ast.AST, var: str):
    """how a condition relates to `var` being zero: 'zero' when it is true exactly for a zero / non-positive value
    (`p == 0`, `0 == p`, `p <= 0`, `not p`), 'nonzero' when it is true exactly for a non-zero / positive value
    (`p > 0`, `0 < p`, `p != 0`, `p`), None otherwise."""
    if isinstance(test, ast.Name) and test.id == var:
        return "nonzero"
    if isinstance(test, ast.UnaryOp) and isinstance(test.op, ast.Not):
        r = zero_test(test.operand, var)
        return {"zero": "nonzero", "nonzero": "zero"}.get(r)
    views = cmp_views(test)
    for z in ("0", "0.0"):
        if (var, "==", z) in views or (var, "<=", z) in views:
            return "zero"
        if (var, ">", z) in views or (var, "!=", z) in views:
            return "nonzero"
    return None


def arg_nodes(call: ast.Call) -> dict:
    """{parameter name: argument node}: keywords, plus — when the callee's signature is known — the positional arguments by parameter."""
    b = bound_args(call)
    if b is not None:
        return {k: v for k, v in b.items() if not k.startswith("#")}
    return {k.arg: k.value for k in call.keywords if k.arg}


def arg_texts(call: ast.Call) -> dict:
    return {k: ast.unparse(v) for k, v in arg_nodes(call).items()}


def ordered_args(call: ast.Call):
    """the argument nodes in parameter order, whichever way they were passed (positional arguments, then — when the callee's signature is
    known — the keyword arguments that continue the positional parameters); keywords that cannot be placed are left out."""
    out = list(call.args)
    ps = call_params(call)
    if ps is not None:
        kws = {k.arg: k.value for k in call.keywords if k.arg}
        i = len(out)
        while i < len(ps) and ps[i] in kws:
            out.append(kws[ps[i]])
            i += 1
    return out

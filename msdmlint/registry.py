"""Registry of the 20 properties: what is claimed, by which rules, and the MANIFEST generator.

`python -m msdmlint.registry` rewrites /verif/MANIFEST.json from this table.  A property whose
checker module does not exist (or is switched off here) is listed under not_applicable."""
from __future__ import annotations

import importlib.util
import json
import os

VERIF = os.path.dirname(os.path.dirname(os.path.abspath(__file__)))

COMMON_NOTE = ("Trusted base: CPython's ast module; the msdmlint program model (symbol/MRO/call resolution, "
               "CFG, reaching definitions, expression DAG) and its table of numpy/torch/random semantics. "
               "Nothing of msdm is imported or executed. UNKNOWN obligations (imprecision of the analysis) never "
               "alarm and are listed in the evidence; a rule falling below its frozen instance minimum is an "
               "ANALYSIS-ERROR (exit 2).")

# id -> dict(technique, text, design_ref, reason_if_unclaimed)
PROPS = {
    "C01": dict(
        technique="static analysis: Bellman-form check on the expression DAG (ingredients, discount degree, mask must-pass-through, policy construction) + einsum axis-role typing + solve-rank rule",
        text="Structural necessary conditions of C01 decided from the source on every run: the three implementations apply a Bellman optimality backup whose value terms contain transition model, reward model, discount (exactly once on the future term), availability penalty and absorbing / cannot-reach masks on every def-use path; placeholder stores come after the solver and before the result tables; the policy is the normalised indicator of the penalised action values; the stop rule compares successive iterates against the configured residual with rtol=0; initial_value is the initial-distribution expectation of the reported table; the batched linear solve is well-formed for the installed numpy. NOT decided: that iterating the operator reaches the optimum within the bound (contraction argument, recorded as assumption), numerical ties and tolerances.",
        design_ref="DESIGN.md §4 C01"),
    "C02": dict(
        technique="static analysis: einsum axis-role and variance typing (function-of-state vs measure-over-state), mask must-pass-through, discount degree, table key-space rule",
        text="Structural necessary conditions of C02: absorbing rows of chain and rewards are zeroed before the inverse in both branches; the system matrix is eye - gamma*P (eye - P in the gamma==1 branch); values bind the reward vector to the 'to' axis and occupancy binds the initial vector to the 'from' axis of the successor representation; action values contain reward + log(availability) + discounted future; -inf is assigned from the negative-recurrent-accessible mask; the policy matrix is laid out over the MDP's own lists. NOT decided: correctness of the transient/recurrent classification on runtime graphs, invertibility, tolerances.",
        design_ref="DESIGN.md §4 C02"),
    "C03": dict(
        technique="static analysis: index-provenance of element stores, Bellman-form of the sub-MDP and its policy iteration, policy-closure path check, hash-order leak rule",
        text="Structural necessary conditions of C03: sub-MDP matrices are stored at the indices of the entities they were computed from; absorbing nodes become pseudo-terminal with reward 0; boundary successors contribute reward + gamma*node value (reward only when absorbing); q = sum T*(R + gamma*v) with I - gamma*mp; availability penalty before argmax; the optimal action is an element of the node's own action order (built from mdp.actions(s)); the policy closure returns a distribution on every path and its fallback iterates mdp.actions(s); converged is the solved-predicate of the final solution graph. NOT decided: optimality/admissibility theorems about expansion order.",
        design_ref="DESIGN.md §4 C03"),
    "C04": dict(
        technique="static analysis: guarded-read (contradiction) rule on the lazily defaulted value table, simulation-loop protocol, Bellman form of Q",
        text="Structural necessary conditions of C04: Q is the one-step backup with zero future at absorbing successors and 0 at absorbing states; the Bellman update is the max over mdp.actions(s); labelling marks solved only on the flag-true path with the configured margin; the trial samples the successor of the greedy action of the current state and labels absorbing successors solved; every reported read of V is absorbing-aware (default consults is_absorbing or the read is guarded); converged derives from the trial counter. NOT decided: the epsilon bound and termination (depend on sampled histories).",
        design_ref="DESIGN.md §4 C04"),
    "C05": dict(
        technique="static analysis: protocol-capability rule on .support uses, guarded-return (dominance) rule, predecessor-map provenance, cost-accounting normal form, NamedTuple field-order rule",
        text="Structural necessary conditions of C05: the MDP-to-shortest-path conversion applies to .support only operations every implementation of that protocol supports; every Result is returned only under is_absorbing(popped state) and the only other exit is queue exhaustion (None); camefrom[ns] stores the very (s,a) of ns=next_state(s,a) and is read back in that order; g(ns)=g(s)-reward(s,a,ns), priority=g-h, start priority=-h(start), path_value is the popped node's g; the heap tuple orders by priority then tie-break before any user state; re-push only under strictly smaller cost. NOT decided: minimality of cost/steps (A*/BFS theorems over a runtime heuristic).",
        design_ref="DESIGN.md §4 C05"),
    "C06": dict(
        technique="static analysis: index-provenance typing of array element stores (axis <-> list <-> entity <-> value), sibling zero-probability discipline, forwarding/wiring rule",
        text="Structural necessary conditions of C06: each model array is allocated over (state_list, action_list[, state_list]) and every element store writes, at the positions of (s, a, ns) in those lists, the value the functional interface returns for exactly those entities; every consumer of next_state_dist(...).items() that indexes the state list filters zero probabilities first, as reachable_states does; state_action_reward_matrix contracts R and T over the successor axis; from_matrices closures read each axis with the index map of the list it was written from; QuickMDP forwards its parameters in order. NOT decided: equality of planning results, behaviour under max_states cut-offs.",
        design_ref="DESIGN.md §4 C06"),
    "C07": dict(
        technique="static analysis: accumulation-form check of the Bayes filter (call-argument provenance), einsum axis-role/variance typing of the vectorised filter, sibling zero-probability discipline",
        text="Structural necessary conditions of C07: the dictionary filter accumulates b(s)*T(ns|s,a)*O(o|a,ns) keyed by ns with observation_dist called on the successor, normalised by its own total and empty on total 0; the predictive distribution accumulates the same product keyed by o; the vectorised versions contract belief (a measure) with the 'from' axis and read O[ai,:,oi]; observation_matrix stores at (ai, nsi, index of o) and filters zero probabilities like observation_list; belief-MDP weights are the predictive probabilities of the observation that produced the successor belief, its reward is the belief-weighted expected reward, absorption is universally quantified over positive-mass states. NOT decided: floating-point normalisation.",
        design_ref="DESIGN.md §4 C07"),
    "C08": dict(
        technique="static analysis: einsum axis-role typing of the point-based backup, discount degree, absorbing-mask must-reach, result wiring, possibly-unbound-after-data-dependent-loop rule",
        text="Structural necessary conditions of C08: the backup's einsums are kind-consistent, transition and reward tensors are multiplied by the non-absorbing mask before use, the future term is discounted exactly once; the returned policy is built from the alpha vectors of the last backup; look-ahead action value = expected reward + gamma*sum_o P(o)*V(b') with the filter called on the same (b,a,o); QMDP's action value is the belief-weighted MDP action value and the MDP values come from the solver's action_value; action_dist is uniform over exact maximisers of the policy's own action_value. NOT decided: the lower/upper bound sandwich (theorems + numerics).",
        design_ref="DESIGN.md §4 C08"),
    "C09": dict(
        technique="static analysis: einsum axis-role typing with node roles, Bellman-ingredient rule (absorbing mask must reach chain and reward), conditional must-read rule for the node update, freshness typestate of the cached value table",
        text="Structural necessary conditions of C09: the cross-product chain einsum is kind-consistent, the system matrix is I - gamma*Tmu and Cmu = pi*R^T; the absorbing mask reaches chain and reward (KNOWN FINDING on the pinned tree); the executed node update reads the action strategy (KNOWN FINDING); the roll-out loop follows the simulation protocol; learners report the evaluation of the controller they return (value table fresh w.r.t. the last controller write); strategies handed to the controller are normalised by construction. NOT decided: monotone improvement (LP solutions), statistics of roll-outs.",
        design_ref="DESIGN.md §4 C09"),
    "C10": dict(
        technique="static analysis: simulation-loop protocol (SIM-1..4,7) + sum-of-products normal form of the TD increment per learner",
        text="Structural necessary conditions of C10: in each of the four training loops the absorbing test on the current state guards sampling, the action comes from the Q-row of the current state, reward(s,a,ns) gets exactly those, the only state advance is s=ns after the update; the increment normalises to alpha*r + alpha*gamma*B - alpha*Q[s][a] with the learner's bootstrap B (max, Q[ns][na] with carried na, expectation under the behaviour distribution, cross-table argmax); Q tables have a single lazy initialiser that returns 0 at absorbing states; double-Q returns the mean; the greedy policy uses exact maximisers and falls back to mdp.actions(s). The [0,1]-step-size interval bound follows from the normal form (convex combination) and is recorded as an argument.",
        design_ref="DESIGN.md §4 C10"),
    "C11": dict(
        technique="static analysis: MRO-shadowing table for the distribution kinds, exception-coverage of prob, accumulation-form check of each operation",
        text="Structural necessary conditions of C11: for each of the five kinds every listed operation resolves (C3 MRO computed from the class statements) to a probability-semantics implementation, never to the builtin dict method of the same name; prob is total for every kind (the handler of Table.get covers every key-not-in-domain raiser); each operation's accumulation matches the probability calculus (marginalize sums merged events, chain is total probability, condition divides by its own norm, joint multiplies, | adds, * scales, & multiplies on the common support and renormalises, expectation weights by p, normalize divides by the total, softmax is max-shifted and normalised); sampling uses the supplied generator and one iteration order for population and weights. NOT decided: floating-point mass, zero-total conditioning.",
        design_ref="DESIGN.md §4 C11"),
    "C12": dict(
        technique="static analysis: exception-coverage (raise-set vs handler types over the call graph), guarded-return order in the selector resolver, structural rules on keys/items/len",
        text="Structural necessary conditions of C12: in the selector resolver the outermost-domain lookup precedes every other interpretation; keys/len read the outermost field's domain; a probability-table selection becomes a distribution exactly at probability rank; the MDP tables' __getitem__ converts every key-not-in-domain error (KeyError, IndexError and its subclasses, DomainError) into the state/action index error and Table.get covers the same set; list selectors rebuild the outer domain from the selector's own index list; validation compares coordinate counts with unique counts. NOT decided: full selector semantics under colliding runtime keys, slices/ellipsis combinations.",
        design_ref="DESIGN.md §4 C12"),
    "C13": dict(
        technique="static analysis: randomness effect analysis over the resolved call graph (ambient draws control-dependent on 'seed is None', generator threading, seed truthiness, scoped reseeding, hash-taint of seeds, hash-order leaks of sets)",
        text="C13 is almost entirely a discipline and the rules cover each sentence: from every seeded entry point (frozen list) no ambient draw of random/numpy.random/torch is reachable except under a 'seed is None' guard or inside a forked-and-reseeded region (RNG-1/4); every call whose callees all accept a generator passes the generator in scope (RNG-2); seeds are never tested by truthiness (RNG-3); no seed is derived from hash()/id() (RNG-5, KNOWN FINDING obj_seed); no set iteration order reaches an ordered result, array layout or generator-draw pairing (RNG-6, KNOWN FINDING state_list fallback). NOT decided: nondeterminism inside numpy/torch/scipy kernels and user callables.",
        design_ref="DESIGN.md §4 C13"),
    "C14": dict(
        technique="static analysis: simulation-loop protocol (SIM-1..6) on both roll-out loops + provenance of the Monte-Carlo bookkeeping",
        text="Structural necessary conditions of C14: both roll-out loops test absorption of the current state before sampling, draw the action from the policy at the current (agent) state, the successor from next_state_dist(s,a), the observation from observation_dist(a,ns), the reward from reward(s,a,ns), record exactly those under the same-named fields, advance s=ns (and the agent state with the same (a,o)) after recording, stop at range(max_steps) and append a terminal record; the initial state is given or sampled with the supplied generator; evaluation collects rets[0], zips returns/states/actions of one roll-out and reports np.mean of those lists and count/n for visits. NOT decided: calc_returns == backward recursion (matrix identity outside the normaliser), agreement with exact evaluation.",
        design_ref="DESIGN.md §4 C14"),
    "C15": dict(
        technique="static analysis: interface-transfer completeness (members of MarkovDecisionProcess vs attributes assigned on the derived class), guarded-return and wiring rules for options and the semi-MDP",
        text="Structural necessary conditions of C15: augment() transfers every member of the MDP interface computed from the MarkovDecisionProcess class statement (abstract methods + public data attributes, + state_list/action_list for tabular bases); the sub-task overrides exactly is_absorbing, reward, initial_state_dist and its clipped reward returns the base reward on terminal successors; option execution augments with is_absorbing=is_terminal, passes its own step limit and raises on reaching it; the outcome distribution is counts/(simulation count) keyed by (end state, steps, discounted sum) and a primitive action maps to (ns, 1, reward(s,a,ns)). NOT decided: quality of the planned option policy.",
        design_ref="DESIGN.md §4 C15"),
    "C16": dict(
        technique="static analysis: result-wiring rule (tuple positions vs result fields), einsum axis-role typing, Bellman ingredients/discount degree of gain and bias backups",
        text="Narrow claim — structural necessary conditions only: the six returned arrays are wired to the same-named result tables; einsums are kind-consistent; absorbing mask on rewards, chain and bias backup; gamma in chain and bias backup, none in the gain backup; availability penalty before both argmax; policy = gain-and-bias maximisers normalised over actions; converged from the iteration counter. NOT decided and said so: gain/value optimality on convergence (depends on runtime recurrent-class detection and a determinant-vs-tolerance rank test; a gamma=0.99 counter-example to the behaviour exists and is out of reach of this family).",
        design_ref="DESIGN.md §4 C16"),
    "C17": dict(
        technique="static analysis: index-space rule (allocation extent vs index source), simulation-loop protocol, counter/threshold rule, normal form of the optimistic constant and the empirical backup",
        text="Structural necessary conditions of C17: all arrays are allocated with the extent of the list they are indexed through; optimistic initialisation is rmax/(1-gamma) for every pair; only pairs with count>=m are overwritten (mask on both sides of the store); the model update is count-limited and increments the counter it tests; the empirical backup is R^ + gamma*P^*max_a Q with self-loop defaults and the configured tolerance; the training loop follows the simulation protocol; the Q dictionary labels rows/columns with state_list/action_list; greedy policy over exact maximisers. The bound Q <= rmax/(1-gamma) follows by induction from the backup form (recorded as argument). NOT decided: Bellman consistency within tolerance at return time.",
        design_ref="DESIGN.md §4 C17"),
    "C18": dict(
        technique="static analysis: normal form of the factor-table algebra in logit space, guarded-return rule for terminal handling, interval reasoning on the one-step clamp",
        text="Structural necessary conditions of C18: factor-table product adds logits on matching rows and drops -inf rows, mixture adds probabilities, scaling adds log(num), the constructor normalises; terminal/goal states return the terminal table before any move logic and rewards are the zero map when either end is terminal; each agent's candidate cells are {stay, clamped one-step move}. NOT decided: collisions, swaps, obstacles, walls, fences and normalisation of the joint table (per-layout runtime joins).",
        design_ref="DESIGN.md §4 C18"),
    "C19": dict(
        technique="static analysis: Bellman form of the regularised evaluation (discount degree, entropy term), softmax-improvement normal form, convergence/result wiring",
        text="Structural necessary conditions of C19: evaluation solves (I - gamma*P_pi) v = r_pi - w*KL(pi||pi0); q = sum_s' T*(R + gamma*v); improvement is softmax_A(q/w + log pi0); converged is set only on the isclose(pi,new_pi).all() path and the returned policy/action_values/state_values are those of that iteration; the wrapper feeds transition/reward/action matrices and lays outputs over state_list x action_list. NOT decided: the log-sum-exp identity at the fixed point (recorded as argument), the w->0 limit.",
        design_ref="DESIGN.md §4 C19"),
    "C20": dict(
        technique="static analysis: optional-parameter guard rule on domain constructors, symbolic normalisation of distribution literals, guarded-return rule on the plain grid world's transition function",
        text="Structural necessary conditions of C20: every constructor parameter defaulting to None is normalised or guarded before it is dereferenced; every distribution literal in the six domains sums to 1 symbolically and every other returned distribution is a deterministic/uniform constructor or a mass-preserving operation on such; every actions() returns a non-empty literal collection; in the plain grid world a distribution mentioning the moved cell is returned only under in-grid, not-wall and moved guards, the moved cell is s+a, success probability is the configured parameter, absorbing-feature cells and the terminal state return the terminal distribution first, reward is step cost + entered cell's feature reward and 0 when either end is terminal. NOT decided: layout-quantified closure/normalisation of the windy pipeline, finiteness of user reward tables, 'can be planned on'.",
        design_ref="DESIGN.md §4 C20"),
}

UNBUILT_REASON = ("static-analysis checker for this property is not built yet in this tree; nothing is claimed "
                  "until the rule exists and is silent on the repaired tree")


def has_checker(pid: str) -> bool:
    return os.path.exists(os.path.join(VERIF, "msdmlint", "props", pid.lower() + ".py"))


def manifest() -> dict:
    checks, na = [], []
    for pid, d in PROPS.items():
        if has_checker(pid) and not d.get("disabled"):
            checks.append({
                "property_id": pid,
                "quick_cmd": f"./check {pid} --tier quick",
                "thorough_cmd": f"./check {pid} --tier thorough",
                "evidence_file": f"/verif/evidence/{pid}.json",
                "replay_cmd_template": f"./check {pid} --replay {{path}}",
                "engine": "msdmlint",
                "level_claimed": {"category": "other", "text": d["text"], "design_ref": d["design_ref"]},
                "level_note": COMMON_NOTE,
                "technique": d["technique"],
            })
        else:
            na.append({"property_id": pid, "reason": d.get("disabled") or UNBUILT_REASON})
    return {
        "version": 1,
        "setup_cmd": "cd /verif && (if [ -x /venv/bin/python ]; then /venv/bin/python -m compileall -q msdmlint; else python3 -m compileall -q msdmlint; fi)",
        "hooks": {
            "guard": "MSDM_VERIF",
            "enable": "no hooks exist: the checks read /repo's sources and never build or run msdm",
            "baseline_off_cmd": "cd /repo && /venv/bin/python -m pytest -ra -q -p no:cacheprovider --timeout=900 --continue-on-collection-errors",
            "source_commits": [],
            "add_only": True,
        },
        "engines": [{
            "name": "msdmlint",
            "path": "/verif/msdmlint",
            "serves_properties": [c["property_id"] for c in checks],
            "kind_free_text": "repository-specific static analyser (stdlib ast): program model with C3 MRO and call resolution, per-function CFG, dominators, reaching definitions, expression DAG, tensor axis-role typing, sum-of-products normaliser; three-valued obligations",
        }],
        "checks": checks,
        "not_applicable": na,
        "notes": "All checks are static: they parse /repo/msdm/**/*.py on every run and never import msdm. Exit codes: 0 held, 1 VIOLATION line, 2 ANALYSIS-ERROR. Known findings are in /verif/known_findings.json. Set MSDM_REPO to analyse a scratch copy.",
    }


def main():
    m = manifest()
    with open(os.path.join(VERIF, "MANIFEST.json"), "w") as f:
        json.dump(m, f, indent=1)
    print(f"MANIFEST.json: {len(m['checks'])} checks, {len(m['not_applicable'])} not_applicable")


if __name__ == "__main__":
    main()

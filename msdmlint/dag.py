"""Expression DAG: expand a use of a variable into the expressions that define it
(reaching definitions substituted recursively; partial stores become `where`, loop-carried
definitions become `prev(v)`, several reaching definitions become `phi`)."""
from __future__ import annotations

import ast
from typing import Dict, Iterable, List, Optional, Tuple

from .cfg import FunctionCFG, Def, cfg_of, var_key
from .model import Program, FunctionInfo, ClassInfo, dotted

MAX_DEPTH = 40


class T:
    """A term.  op + args (args are T, str, int, None, tuples thereof or FunctionInfo/ClassInfo refs)."""
    __slots__ = ("op", "args", "src", "_key")

    def __init__(self, op: str, *args, src=None):
        self.op = op
        self.args = args
        self.src = src          # (FunctionInfo, ast node) for reporting
        self._key = None

    def key(self):
        if self._key is None:
            def k(a):
                if isinstance(a, T):
                    return a.key()
                if isinstance(a, tuple):
                    return tuple(k(x) for x in a)
                if isinstance(a, (FunctionInfo, ClassInfo)):
                    return ("ref", a.qualname)
                if isinstance(a, ast.AST):
                    return ("ast", id(a))
                return a
            self._key = (self.op,) + tuple(k(a) for a in self.args)
        return self._key

    def __eq__(self, other):
        return isinstance(other, T) and self.key() == other.key()

    def __hash__(self):
        return hash(self.key())

    def __repr__(self):
        return show(self, 160)

    def children(self) -> Iterable["T"]:
        for a in self.args:
            yield from _iter_terms(a)

    def loc(self) -> str:
        if self.src:
            fi, node = self.src
            return fi.loc(node)
        return "?"


def _iter_terms(a):
    if isinstance(a, T):
        yield a
    elif isinstance(a, tuple):
        for x in a:
            yield from _iter_terms(x)


def walk(t: T, _seen=None) -> Iterable[T]:
    seen = set() if _seen is None else _seen
    stack = [t]
    while stack:
        x = stack.pop()
        if id(x) in seen:
            continue
        seen.add(id(x))
        yield x
        stack.extend(x.children())


def find(t: T, pred) -> List[T]:
    return [x for x in walk(t) if pred(x)]


def contains(t: T, pred) -> bool:
    for x in walk(t):
        if pred(x):
            return True
    return False


def show(t, maxlen: int = 200) -> str:
    s = _show(t, 0)
    return s if len(s) <= maxlen else s[: maxlen - 3] + "..."


def _show(t, d) -> str:
    if not isinstance(t, T):
        if isinstance(t, tuple):
            return "(" + ", ".join(_show(x, d + 1) for x in t) + ")"
        if isinstance(t, (FunctionInfo, ClassInfo)):
            return t.name
        return repr(t)
    if d > 8:
        return "…"
    op, a = t.op, t.args
    if op == "const":
        return repr(a[0])
    if op in ("name", "builtin", "undef", "prev", "unknown", "global"):
        return f"{op}:{a[0]}" if op not in ("name", "builtin") else str(a[0])
    if op == "param":
        return f"${a[1]}"
    if op == "attr":
        return f"{_show(a[0], d + 1)}.{a[1]}"
    if op == "call":
        args = [_show(x, d + 1) for x in a[1]] + [f"{k}={_show(v, d + 1)}" for k, v in a[2]]
        return f"{_show(a[0], d + 1)}({', '.join(args)})"
    if op == "binop":
        return f"({_show(a[1], d + 1)} {a[0]} {_show(a[2], d + 1)})"
    if op == "unary":
        return f"({a[0]} {_show(a[1], d + 1)})"
    if op == "subscript":
        return f"{_show(a[0], d + 1)}[{_show(a[1], d + 1)}]"
    if op == "where":
        return f"where({_show(a[0], d + 1)}, {_show(a[1], d + 1)}, {_show(a[2], d + 1)})"
    if op == "phi":
        return "phi(" + " | ".join(_show(x, d + 1) for x in a[0]) + ")"
    if op == "funcref":
        return f"<{a[0].name}>"
    if op == "classref":
        return f"<class {a[0].name}>"
    if op == "modref":
        return f"<mod {a[0]}>"
    if op == "elem":
        return f"elem{list(a[1]) if a[1] else ''}({_show(a[0], d + 1)})"
    return f"{op}(" + ", ".join(_show(x, d + 1) for x in a) + ")"


BINOPS = {ast.Add: "+", ast.Sub: "-", ast.Mult: "*", ast.Div: "/", ast.MatMult: "@", ast.Pow: "**",
          ast.FloorDiv: "//", ast.Mod: "%", ast.BitAnd: "&", ast.BitOr: "|", ast.BitXor: "^",
          ast.LShift: "<<", ast.RShift: ">>"}
UNOPS = {ast.USub: "-", ast.UAdd: "+", ast.Not: "not", ast.Invert: "~"}
CMPOPS = {ast.Eq: "==", ast.NotEq: "!=", ast.Lt: "<", ast.LtE: "<=", ast.Gt: ">", ast.GtE: ">=",
          ast.Is: "is", ast.IsNot: "is not", ast.In: "in", ast.NotIn: "not in"}


class Expander:
    def __init__(self, program: Program):
        self.P = program
        self._ret_cache: Dict[int, T] = {}
        self._def_cache: Dict[Tuple[int, int], Tuple[T, frozenset]] = {}
        self._frames: List[list] = []      # [footprint set, hits set]

    # ------------------------------------------------------------------ public
    def expr(self, fi: FunctionInfo, node: ast.AST, at: Optional[int] = None, env: Optional[dict] = None,
             stack: Tuple = (), depth: int = 0, before_def: Optional[Def] = None) -> T:
        cfg = cfg_of(fi)
        if at is None:
            at = cfg.node_for(node)
            if at is None:
                at = cfg.exit.id
        return self._e(fi, cfg, node, at, env or {}, stack, depth, before_def)

    def var_at(self, fi: FunctionInfo, key: str, at: int, after: bool = False) -> T:
        """value of variable `key` at entry (or exit) of CFG node `at`."""
        cfg = cfg_of(fi)
        ds = cfg.reaching_after(at, key) if after else cfg.reaching(at, key)
        return self._phi([self._def(fi, cfg, d, {}, (), 0) for d in ds], key, fi)

    def def_term(self, fi: FunctionInfo, d: Def) -> T:
        return self._def(fi, cfg_of(fi), d, {}, (), 0)

    def returns(self, fi: FunctionInfo) -> T:
        """phi of all `return` expressions of fi (param leaves unbound)."""
        c = self._ret_cache.get(id(fi))
        if c is not None:
            return c
        self._ret_cache[id(fi)] = T("unknown", "recursion")
        cfg = cfg_of(fi)
        alts = []
        for n in cfg.nodes:
            if n.kind == "stmt" and isinstance(n.ast, ast.Return):
                if n.ast.value is None:
                    alts.append(T("const", None))
                else:
                    alts.append(self._e(fi, cfg, n.ast.value, n.id, {}, (), 0, None))
        # generator functions: yields
        for n in cfg.nodes:
            if n.ast is not None and n.kind == "stmt":
                for sub in ast.walk(n.ast):
                    if isinstance(sub, (ast.Yield, ast.YieldFrom)) and self.P.fn_of_node.get(id(n.ast)) is None:
                        pass
        t = self._phi(alts, "<return>", fi) if alts else T("const", None)
        self._ret_cache[id(fi)] = t
        return t

    def yields(self, fi: FunctionInfo) -> List[T]:
        cfg = cfg_of(fi)
        out = []
        for n in cfg.nodes:
            if n.ast is None:
                continue
            for root in cfg.header_exprs(n):
                for sub in _walk_no_scopes(root):
                    if isinstance(sub, ast.Yield) and sub.value is not None:
                        out.append(T("yield", self._e(fi, cfg, sub.value, n.id, {}, (), 0, None)))
                    elif isinstance(sub, ast.YieldFrom):
                        out.append(T("yieldfrom", self._e(fi, cfg, sub.value, n.id, {}, (), 0, None)))
        return out

    # ------------------------------------------------------------------ helpers
    def _phi(self, alts: List[T], key: str, fi) -> T:
        uniq = []
        for a in alts:
            if a.op == "phi":
                for b in a.args[0]:
                    if b not in uniq:
                        uniq.append(b)
            elif a not in uniq:
                uniq.append(a)
        if not uniq:
            return T("undef", key)
        if len(uniq) == 1:
            return uniq[0]
        return T("phi", tuple(uniq))

    def _project(self, t: T, path: Tuple) -> T:
        for p in path:
            if isinstance(p, tuple):
                t = T("starslice", t, p[1])
            elif t.op in ("tuple", "list") and isinstance(p, int) and p < len(t.args[0]) \
                    and not any(x.op == "star" for x in t.args[0]):
                t = t.args[0][p]
            else:
                t = T("subscript", t, T("const", p))
        return t

    def _def(self, fi: FunctionInfo, cfg: FunctionCFG, d: Def, env, stack, depth) -> T:
        """memoising wrapper: a result is reusable under another expansion stack when the set of
        definitions visited while computing it (its footprint) is disjoint from that stack and no
        cycle was cut at a definition outside the footprint."""
        sk = (id(fi), d.id)
        if (id(fi), d.id) in stack:
            if self._frames:
                self._frames[-1][1].add(sk)
            return T("prev", d.var, src=(fi, d.stmt))
        c = self._def_cache.get(sk)
        if c is not None and not (c[1] & set(stack)):
            if self._frames:
                self._frames[-1][0] |= c[1]
            return c[0]
        frame = [set([sk]), set()]
        self._frames.append(frame)
        try:
            t = self._def_raw(fi, cfg, d, {}, stack, depth)
        finally:
            self._frames.pop()
        ext = frame[1] - frame[0]
        if not ext and depth <= MAX_DEPTH // 2:
            self._def_cache[sk] = (t, frozenset(frame[0]))
        if self._frames:
            self._frames[-1][0] |= frame[0]
            self._frames[-1][1] |= frame[1]
        return t

    def _def_raw(self, fi: FunctionInfo, cfg: FunctionCFG, d: Def, env, stack, depth) -> T:
        if depth > MAX_DEPTH:
            return T("unknown", "depth")
        stack2 = stack + ((id(fi), d.id),)
        src = (fi, d.stmt)
        k = d.kind
        if k == "param":
            return T("param", fi.qualname, d.var, src=(fi, fi.node))
        if k == "assign":
            v = self._e(fi, cfg, d.value, d.node, env, stack2, depth + 1, d)
            return self._project(v, d.path)
        if k in ("for",):
            it = self._e(fi, cfg, d.value, d.node, env, stack2, depth + 1, d)
            return T("elem", it, d.path, src=src)
        if k == "with":
            return T("with", self._e(fi, cfg, d.value, d.node, env, stack2, depth + 1, d), src=src)
        if k in ("aug", "augstore", "store", "mut", "viewstore"):
            olds = cfg.reaching(d.node, d.var, before_def=d)
            old = self._phi([self._def(fi, cfg, o, env, stack2, depth + 1) for o in olds], d.var, fi)
            if old.op == "undef":
                old = self._outer_var(fi, d.var, env, stack2, depth + 1, d.stmt)
            if k == "aug":
                v = self._e(fi, cfg, d.value, d.node, env, stack2, depth + 1, d)
                return T("binop", BINOPS.get(type(d.op), "?"), old, v, src=src)
            if k == "mut":
                call = d.value
                args = tuple(self._e(fi, cfg, a, d.node, env, stack2, depth + 1, d) for a in call.args)
                return T("mut", d.method, old, args, src=src)
            idx = self._e(fi, cfg, d.index, d.node, env, stack2, depth + 1, d)
            v = self._e(fi, cfg, d.value, d.node, env, stack2, depth + 1, d)
            v = self._project(v, d.path)
            if k == "augstore":
                v = T("binop", BINOPS.get(type(d.op), "?"), T("subscript", old, idx), v, src=src)
            if k == "viewstore":
                vi = self._e(fi, cfg, d.view_index, d.node, env, stack2, depth + 1, d) if d.view_index is not None else T("const", None)
                idx = T("viewidx", d.via, idx, vi)
            return T("where", idx, v, old, src=src)
        if k == "funcdef":
            f = self.P.fn_of_node.get(id(d.value))
            if f is not None:
                t = T("funcref", f, src=src)
                # decorators wrap the function
                for dec in reversed(d.value.decorator_list):
                    t = T("call", self._e(fi, cfg, dec, d.node, env, stack2, depth + 1, None), (t,), (), src=src)
                return t
            return T("unknown", "funcdef")
        if k == "classdef":
            ci = fi.local_classes.get(d.var)
            return T("classref", ci, src=src) if ci is not None else T("unknown", "classdef")
        if k == "import":
            r = self.P.resolve_symbol(fi.module.name, d.var)
            return self._global_term(r, d.var, fi)
        if k == "except":
            return T("exception", src=src)
        if k == "del":
            return T("undef", d.var)
        return T("unknown", k)

    def _global_term(self, r, name, fi) -> T:
        if isinstance(r, FunctionInfo):
            return T("funcref", r)
        if isinstance(r, ClassInfo):
            return T("classref", r)
        if isinstance(r, tuple):
            if r[0] == "module":
                return T("modref", r[1])
            if r[0] == "external":
                return T("modref", r[1])
            if r[0] == "builtin":
                return T("builtin", r[1])
            if r[0] == "global":
                return T("global", f"{r[1].name}.{r[2]}")
        return T("name", name)

    def _outer_var(self, fi: FunctionInfo, key: str, env, stack, depth, node) -> T:
        """variable not defined (reaching) in fi: closure, module global or builtin."""
        head = key.split(".")[0]
        rest = key.split(".")[1:]

        def with_attrs(t):
            for a in rest:
                t = T("attr", t, a, src=(fi, node))
            return t

        p = fi.parent
        while p is not None:
            pc = cfg_of(p)
            # try the full key first, then the head
            for k2, rs in ((key, []), (head, rest)):
                ds = [d for d in pc.defs_of(k2) if d.kind != "del"]
                if ds:
                    if depth > MAX_DEPTH:
                        return T("unknown", "depth")
                    t = self._phi([self._def(p, pc, d, {}, stack, depth + 1) for d in ds], k2, p)
                    for a in rs:
                        t = T("attr", t, a, src=(fi, node))
                    return t
            p = p.parent
        if fi.cls is None and fi.parent is not None:
            pass
        r = self.P.resolve_global_name(fi, head)
        return with_attrs(self._global_term(r, head, fi))

    def _name(self, fi, cfg, key: str, at: int, env, stack, depth, before_def, node) -> T:
        head = key.split(".")[0]
        if head in env:
            t = env[head]
            for a in key.split(".")[1:]:
                t = T("attr", t, a, src=(fi, node))
            return t
        # longest tracked prefix of the chain
        parts = key.split(".")
        for n in range(len(parts), 0, -1):
            k2 = ".".join(parts[:n])
            ds = cfg.reaching(at, k2, before_def=before_def)
            if ds:
                t = self._phi([self._def(fi, cfg, d, env, stack, depth + 1) for d in ds], k2, fi)
                for a in parts[n:]:
                    t = T("attr", t, a, src=(fi, node))
                return t
        if any(d.kind not in ("mut", "store", "augstore", "viewstore") for d in cfg.defs_of(head)):
            # local but nothing reaches (defined later / only on other paths)
            t = T("undef", head)
            for a in parts[1:]:
                t = T("attr", t, a, src=(fi, node))
            return t
        return self._outer_var(fi, key, env, stack, depth, node)

    def _e(self, fi, cfg, node, at, env, stack, depth, before_def) -> T:
        if depth > MAX_DEPTH:
            return T("unknown", "depth")
        src = (fi, node)
        E = lambda n, env2=None: self._e(fi, cfg, n, at, env if env2 is None else env2, stack, depth + 1, before_def)
        if isinstance(node, ast.Constant):
            return T("const", node.value, src=src)
        if isinstance(node, (ast.Name, ast.Attribute)):
            k = var_key(node)
            if k is not None:
                return self._name(fi, cfg, k, at, env, stack, depth, before_def, node)
            return T("attr", E(node.value), node.attr, src=src)
        if isinstance(node, ast.Call):
            f = E(node.func)
            # when the callee's signature is known, keyword arguments that continue the positional parameters are placed positionally,
            # so that the term does not depend on how the arguments were spelled
            from .util import ordered_args, call_params
            pos_nodes = ordered_args(node) if call_params(node) is not None else list(node.args)
            placed = {id(x) for x in pos_nodes}
            args = tuple(T("star", E(a.value)) if isinstance(a, ast.Starred) else E(a) for a in pos_nodes)
            kws = tuple(((kw.arg or "**"), E(kw.value)) for kw in node.keywords if id(kw.value) not in placed)
            return T("call", f, args, kws, src=src)
        if isinstance(node, ast.BinOp):
            return T("binop", BINOPS.get(type(node.op), "?"), E(node.left), E(node.right), src=src)
        if isinstance(node, ast.UnaryOp):
            return T("unary", UNOPS.get(type(node.op), "?"), E(node.operand), src=src)
        if isinstance(node, ast.BoolOp):
            return T("boolop", "and" if isinstance(node.op, ast.And) else "or", tuple(E(v) for v in node.values), src=src)
        if isinstance(node, ast.Compare):
            return T("compare", tuple(CMPOPS.get(type(o), "?") for o in node.ops),
                     (E(node.left),) + tuple(E(c) for c in node.comparators), src=src)
        if isinstance(node, ast.Subscript):
            return T("subscript", E(node.value), E(node.slice), src=src)
        if isinstance(node, ast.Slice):
            f = lambda x: E(x) if x is not None else T("const", None)
            return T("slice", f(node.lower), f(node.upper), f(node.step), src=src)
        if isinstance(node, (ast.Tuple, ast.List, ast.Set)):
            kind = {ast.Tuple: "tuple", ast.List: "list", ast.Set: "set"}[type(node)]
            return T(kind, tuple(T("star", E(x.value)) if isinstance(x, ast.Starred) else E(x) for x in node.elts), src=src)
        if isinstance(node, ast.Dict):
            ks = tuple(E(k) if k is not None else T("const", "**") for k in node.keys)
            vs = tuple(E(v) for v in node.values)
            return T("dict", ks, vs, src=src)
        if isinstance(node, ast.IfExp):
            return T("ifexp", E(node.test), E(node.body), E(node.orelse), src=src)
        if isinstance(node, ast.Lambda):
            li = self.P.fn_of_node.get(id(node))
            return T("funcref", li, src=src) if li is not None else T("unknown", "lambda")
        if isinstance(node, (ast.ListComp, ast.SetComp, ast.GeneratorExp, ast.DictComp)):
            env2 = dict(env)
            gens = []
            for g in node.generators:
                it = self._e(fi, cfg, g.iter, at, env2, stack, depth + 1, before_def)
                self._bind_target(g.target, it, (), env2, (fi, g.target))
                ifs = tuple(self._e(fi, cfg, c, at, env2, stack, depth + 1, before_def) for c in g.ifs)
                gens.append((it, ifs))
            kind = {ast.ListComp: "list", ast.SetComp: "set", ast.GeneratorExp: "gen", ast.DictComp: "dict"}[type(node)]
            if isinstance(node, ast.DictComp):
                elt = T("kv", self._e(fi, cfg, node.key, at, env2, stack, depth + 1, before_def),
                        self._e(fi, cfg, node.value, at, env2, stack, depth + 1, before_def))
            else:
                elt = self._e(fi, cfg, node.elt, at, env2, stack, depth + 1, before_def)
            return T("comp", kind, elt, tuple(T("gen", it, ifs) for it, ifs in gens), src=src)
        if isinstance(node, ast.JoinedStr):
            return T("fstr", src=src)
        if isinstance(node, ast.Starred):
            return T("star", E(node.value), src=src)
        if isinstance(node, ast.NamedExpr):
            return E(node.value)
        if isinstance(node, (ast.Yield, ast.YieldFrom, ast.Await)):
            return T("yield", E(node.value) if node.value is not None else T("const", None), src=src)
        if isinstance(node, ast.stmt):
            # statements handed in as roots (e.g. Return)
            v = getattr(node, "value", None)
            return E(v) if v is not None else T("const", None)
        return T("unknown", type(node).__name__, src=src)

    def _bind_target(self, target, it: T, path, env, src):
        if isinstance(target, (ast.Tuple, ast.List)):
            for i, el in enumerate(target.elts):
                self._bind_target(el, it, path + (i,), env, src)
        elif isinstance(target, ast.Name):
            env[target.id] = T("elem", it, path, src=src)

    # ------------------------------------------------------------------ interprocedural
    def bind_call(self, callee: FunctionInfo, call: T, receiver: Optional[T] = None) -> Dict[str, T]:
        """parameter name -> argument term for a 'call' term."""
        _, args, kws = call.args
        params = list(callee.positional_params)
        m: Dict[str, T] = {}
        if receiver is not None and callee.is_method and not callee.is_static and params:
            m[params[0]] = receiver
            params = params[1:]
        elif callee.is_method and callee.is_classmethod and params:
            m[params[0]] = receiver if receiver is not None else T("classref", callee.cls)
            params = params[1:]
        i = 0
        for a in args:
            if a.op == "star":
                break
            if i < len(params):
                m[params[i]] = a
            i += 1
        allp = set(callee.param_names)
        for k, v in kws:
            if k in allp:
                m[k] = v
        for p in callee.param_names:
            if p not in m:
                dflt = callee.param_default(p)
                if dflt is not None:
                    scope = callee.parent if callee.parent is not None else callee
                    try:
                        m[p] = self._default_term(callee, dflt)
                    except Exception:
                        m[p] = T("unknown", "default")
        return m

    def _default_term(self, callee: FunctionInfo, node: ast.AST) -> T:
        if isinstance(node, ast.Constant):
            return T("const", node.value, src=(callee, node))
        d = dotted(node)
        if d is not None:
            r = self.P.resolve_global_name(callee, d.split(".")[0])
            t = self._global_term(r, d.split(".")[0], callee)
            for a in d.split(".")[1:]:
                t = T("attr", t, a)
            return t
        if isinstance(node, ast.Lambda):
            li = self.P.fn_of_node.get(id(node))
            if li is not None:
                return T("funcref", li)
        return T("default", src=(callee, node))

    def subst(self, t: T, callee: FunctionInfo, binding: Dict[str, T], _memo=None) -> T:
        memo = {} if _memo is None else _memo
        q = callee.qualname

        def s(x):
            if isinstance(x, T):
                hit = memo.get(id(x))
                if hit is not None and hit[0] is x:
                    return hit[1]
                if x.op == "param" and x.args[0] == q and x.args[1] in binding:
                    r = binding[x.args[1]]
                else:
                    na = tuple(s(a) for a in x.args)
                    if all(a is b for a, b in zip(na, x.args)):
                        r = x
                    else:
                        r = T(x.op, *na, src=x.src)
                memo[id(x)] = (x, r)
                return r
            if isinstance(x, tuple):
                return tuple(s(a) for a in x)
            return x
        return s(t)

    def inline(self, call: T, callee: FunctionInfo, receiver: Optional[T] = None) -> T:
        ret = self.returns(callee)
        return self.subst(ret, callee, self.bind_call(callee, call, receiver))


def _walk_no_scopes(node):
    """ast.walk that does not descend into nested function / lambda / class bodies."""
    stack = [node]
    while stack:
        n = stack.pop()
        yield n
        for ch in ast.iter_child_nodes(n):
            if isinstance(ch, (ast.FunctionDef, ast.AsyncFunctionDef, ast.Lambda, ast.ClassDef)):
                continue
            stack.append(ch)


def deep_inline(X: "Expander", t: T, depth: int = 3, _memo=None) -> T:
    """replace calls of in-package functions (funcref callee) by their return terms, recursively."""
    memo = {} if _memo is None else _memo

    def go(x, d):
        if not isinstance(x, T):
            if isinstance(x, tuple):
                return tuple(go(a, d) for a in x)
            return x
        k = (id(x), d)
        hit = memo.get(k)
        if hit is not None and hit[0] is x:
            return hit[1]
        memo[k] = (x, x)          # the tuple keeps x alive so that its id cannot be reused
        na = tuple(go(a, d) for a in x.args)
        y = x if all(a is b for a, b in zip(na, x.args)) else T(x.op, *na, src=x.src)
        if y.op == "call" and d > 0:
            f = y.args[0]
            if f.op == "funcref" and isinstance(f.args[0], FunctionInfo):
                try:
                    r = X.inline(y, f.args[0])
                    y = T("inlined", f.args[0], go(r, d - 1), y, src=y.src)
                except RecursionError:
                    pass
            elif f.op == "attr" and f.args[0].op == "param":
                # self.method(...) inside a method: resolve through the class's MRO (no overriding subclass considered)
                owner = X.P.functions.get(f.args[0].args[0])
                if owner is not None and owner.cls is not None and owner.self_name == f.args[0].args[1] and not owner.is_classmethod:
                    _, m = owner.cls.lookup(f.args[1])
                    if isinstance(m, FunctionInfo) and not m.is_property and not m.is_abstract \
                            and not any(f.args[1] in sc.methods for sc in X.P.subclasses(owner.cls)):
                        try:
                            r = X.inline(y, m, receiver=f.args[0])
                            y = T("inlined", m, go(r, d - 1), y, src=y.src)
                        except RecursionError:
                            pass
        memo[k] = (x, y)
        return y
    return go(t, depth)


def simplify(t: T, _memo=None) -> T:
    """look through tuple projections of inlined multi-value returns: inlined(f, tuple(a, b, c), call)[1] -> b."""
    memo = {} if _memo is None else _memo

    def go(x):
        if not isinstance(x, T):
            if isinstance(x, tuple):
                return tuple(go(a) for a in x)
            return x
        hit = memo.get(id(x))
        if hit is not None and hit[0] is x:
            return hit[1]
        memo[id(x)] = (x, x)
        na = tuple(go(a) for a in x.args)
        y = x if all(a is b for a, b in zip(na, x.args)) else T(x.op, *na, src=x.src)
        if y.op == "subscript" and y.args[1].op == "const" and isinstance(y.args[1].args[0], int):
            base = y.args[0]
            i = y.args[1].args[0]
            if base.op == "inlined":
                ret = base.args[1]
                if ret.op == "tuple" and 0 <= i < len(ret.args[0]) and not any(e.op == "star" for e in ret.args[0]):
                    y = T("proj", ret.args[0][i], base, i, src=y.src)
            elif base.op == "tuple" and 0 <= i < len(base.args[0]):
                y = base.args[0][i]
        memo[id(x)] = (x, y)
        return y
    return go(t)

"""Obligations, verdicts, evidence and known-findings plumbing."""
from __future__ import annotations

import json
import os
import re
import time
from dataclasses import dataclass, field, asdict
from typing import Dict, List, Optional

from .model import Program, AnalysisError, FunctionInfo
from .dag import Expander

VERIF = os.path.dirname(os.path.dirname(os.path.abspath(__file__)))
# scratch runs against a variant tree (tools/) set VERIF_EVIDENCE_DIR so that the committed evidence is not overwritten
EVDIR = os.environ.get("VERIF_EVIDENCE_DIR") or os.path.join(VERIF, "evidence")
PASS, VIOLATION, UNKNOWN, INFO = "PASS", "VIOLATION", "UNKNOWN", "INFO"


@dataclass
class Obligation:
    rule: str
    site: str          # file:line
    function: str      # qualified function (short)
    instance: str      # normalised construct (no line numbers)
    verdict: str
    detail: str = ""
    facts: Optional[dict] = None

    def key(self, prop: str) -> str:
        mod = self.site.rsplit(":", 1)[0]
        return f"{prop}|{self.rule}|{mod}|{self.function}|{self.instance}"


class Ctx:
    def __init__(self, prop: str, program: Program, tier: str = "quick"):
        self.prop = prop
        self.P = program
        self.X = Expander(program)
        self.tier = tier
        self.obs: List[Obligation] = []
        self.assumptions: List[str] = []
        self.notes: List[str] = []
        self.minima: Dict[str, int] = {}
        self.extra: dict = {}

    # -------------------------------------------------------------- recording
    def ob(self, rule: str, fi: Optional[FunctionInfo], node, instance: str, verdict: str, detail: str = "",
           facts: Optional[dict] = None) -> Obligation:
        if fi is not None:
            site = fi.loc(node)
            fn = short_fn(fi)
        else:
            site, fn = "?:0", "?"
        o = Obligation(rule, site, fn, instance, verdict, detail, facts)
        self.obs.append(o)
        return o

    def passed(self, rule, fi, node, instance, detail="", facts=None):
        return self.ob(rule, fi, node, instance, PASS, detail, facts)

    def violation(self, rule, fi, node, instance, detail="", facts=None):
        return self.ob(rule, fi, node, instance, VIOLATION, detail, facts)

    def unknown(self, rule, fi, node, instance, detail="", facts=None):
        return self.ob(rule, fi, node, instance, UNKNOWN, detail, facts)

    def info(self, rule, fi, node, instance, detail="", facts=None):
        return self.ob(rule, fi, node, instance, INFO, detail, facts)

    def check(self, cond: Optional[bool], rule, fi, node, instance, detail_ok="", detail_bad="", facts=None):
        """cond True -> PASS, False -> VIOLATION, None -> UNKNOWN."""
        if cond is None:
            return self.unknown(rule, fi, node, instance, detail_bad or detail_ok, facts)
        if cond:
            return self.passed(rule, fi, node, instance, detail_ok, facts)
        return self.violation(rule, fi, node, instance, detail_bad, facts)

    def require(self, rule: str, minimum: int):
        """frozen minimum of *decided* (PASS or VIOLATION) instances for a rule: below it the anchor
        has vanished and the run is an analysis error, never a silent pass."""
        self.minima[rule] = max(self.minima.get(rule, 0), minimum)

    def assume(self, text: str):
        if text not in self.assumptions:
            self.assumptions.append(text)

    def note(self, text: str):
        self.notes.append(text)

    # -------------------------------------------------------------- summary
    def counts(self) -> Dict[str, Dict[str, int]]:
        out: Dict[str, Dict[str, int]] = {}
        for o in self.obs:
            d = out.setdefault(o.rule, {PASS: 0, VIOLATION: 0, UNKNOWN: 0, INFO: 0})
            d[o.verdict] += 1
        return out

    def check_minima(self):
        cnt = self.counts()
        for rule, m in self.minima.items():
            c = cnt.get(rule, {})
            decided = c.get(PASS, 0) + c.get(VIOLATION, 0)
            if decided < m:
                raise AnalysisError(
                    f"rule {rule}: only {decided} decided instance(s), frozen minimum is {m} "
                    f"(anchor vanished or idiom no longer recognised; unknown={c.get(UNKNOWN, 0)})")


def short_fn(fi: FunctionInfo) -> str:
    q = fi.qualname
    mod = fi.module.name
    if q.startswith(mod + "."):
        q = q[len(mod) + 1:]
    q = re.sub(r"<lambda#\d+@\d+:\d+>", "<lambda>", q)
    return q.replace(".<locals>", "")


# ---------------------------------------------------------------------- known findings
def load_known() -> dict:
    p = os.path.join(VERIF, "known_findings.json")
    if not os.path.exists(p):
        return {"known": [], "fixed": []}
    return json.load(open(p))


def finish(ctx: Ctx, t0: float, seed: int, explanation: str, rule_text: str, selftest: Optional[dict] = None) -> int:
    """print the report, write evidence and replay files, return the exit code."""
    prop = ctx.prop
    known = {k["key"]: k for k in load_known().get("known", []) if k.get("property") == prop}
    cnt = ctx.counts()
    viols = [o for o in ctx.obs if o.verdict == VIOLATION]
    new_viols, known_hits = [], []
    for o in viols:
        (known_hits if o.key(prop) in known else new_viols).append(o)
    st = ctx.P.stats()
    print(f"[model] {st['modules']} modules, {st['classes']} classes, {st['functions']} functions, "
          f"{st['call_sites']} call sites, digest {st['digest']}")
    for rule in sorted(cnt):
        c = cnt[rule]
        print(f"[{prop}] {rule}: pass={c[PASS]} violation={c[VIOLATION]} unknown={c[UNKNOWN]} info={c[INFO]}")
    for o in ctx.obs:
        if o.verdict == UNKNOWN:
            print(f"  UNKNOWN {o.site} {o.function} rule={o.rule} instance={o.instance} {o.detail}")
    for n in ctx.notes:
        print(f"  note: {n}")
    rs = ctx.extra.get("restructured_functions") or {}
    if rs:
        if ctx.extra.get("scope_rewritten"):
            print(f"NOT-DECIDED: property={prop} the files this property looks at were refactored as a whole ({len(rs)} functions, {sum(rs.values())} statements differ from the "
                  f"reviewed reference): structural clauses are not decided on this tree")
        for k, d in sorted(rs.items())[:12]:
            print(f"NOT-DECIDED: property={prop} {k} differs from the reviewed reference by {d} statements (rewritten, not locally edited): "
                  f"the structural clauses anchored in it are not decided on this tree")
        for msg in getattr(ctx, "not_decided", []):
            print(f"NOT-DECIDED: property={prop} {msg}")
    for o in known_hits:
        print(f"KNOWN-FINDING: property={prop} {o.rule} {o.site} {o.function}: {o.instance} -- {o.detail}")
    vdir = os.path.join(EVDIR, "violations")
    for o in new_viols:
        os.makedirs(vdir, exist_ok=True)
        slug = re.sub(r"[^A-Za-z0-9_.-]+", "-", f"{prop}-{o.rule}-{o.function}-{o.instance}")[:150]
        path = os.path.join(vdir, slug + ".json")
        with open(path, "w") as f:
            json.dump({"property": prop, "key": o.key(prop), **asdict(o), "repo_digest": st["digest"]}, f, indent=1, default=str)
        print(f"VIOLATION property={prop} replay={path}")
        print(f"  {o.site} {o.function} rule={o.rule} instance={o.instance}")
        if o.detail:
            print(f"  {o.detail}")
    obligations = sum(c[PASS] + c[VIOLATION] + c[UNKNOWN] for c in cnt.values())
    discharged = sum(c[PASS] for c in cnt.values())
    unknown = sum(c[UNKNOWN] for c in cnt.values())
    wall = time.time() - t0
    samples = []
    seen_rules = set()
    for o in ctx.obs:       # one sample per rule first, then fill
        if o.rule not in seen_rules and o.verdict != INFO:
            seen_rules.add(o.rule)
            samples.append({"rule": o.rule, "site": o.site, "function": o.function, "instance": o.instance,
                            "verdict": o.verdict, "detail": o.detail[:300]})
    for o in ctx.obs:
        if len(samples) >= 40:
            break
        if o.verdict in (UNKNOWN, VIOLATION):
            samples.append({"rule": o.rule, "site": o.site, "function": o.function, "instance": o.instance,
                            "verdict": o.verdict, "detail": o.detail[:300]})
    cov = {
        "explanation": explanation,
        "rule": rule_text,
        "obligations": obligations,
        "discharged": discharged,
        "unknown": unknown,
        "violations_new": len(new_viols),
        "known_findings_seen": len(known_hits),
        "per_rule": cnt,
        "frozen_minima": ctx.minima,
        "samples": samples,
        "all_obligations": [
            {"rule": o.rule, "site": o.site, "function": o.function, "instance": o.instance, "verdict": o.verdict}
            for o in ctx.obs if o.verdict != INFO][:400],
        "model": {k: v for k, v in st.items() if k != "excluded"},
        "excluded_modules": st["excluded"],
        "exhaustive": False,
        "checker_cmd": f"./check {prop} --tier {ctx.tier}",
        "trusted_base": ["CPython ast module", "msdmlint (this package)", "numpy/torch/random semantics table in msdmlint/externals.py"],
    }
    cov.update(ctx.extra)
    if selftest is not None:
        cov["selftest"] = selftest
    ev = {
        "property_id": prop,
        "tier": ctx.tier,
        "seed": seed,
        "level": "other",
        "coverage": cov,
        "assumptions": ctx.assumptions,
        "wall_s": round(wall, 3),
        "violations": len(new_viols),
    }
    os.makedirs(EVDIR, exist_ok=True)
    with open(os.path.join(EVDIR, f"{prop}.json"), "w") as f:
        json.dump(ev, f, indent=1, default=str)
    print(f"[{prop}] obligations={obligations} pass={discharged} unknown={unknown} "
          f"violations={len(new_viols)} known={len(known_hits)} wall={wall:.2f}s")
    return 1 if new_viols else 0
